//! Contract model of rayon (see /verif/DESIGN.md §3 E4, §5 C07).
//!
//! Semantics implemented (rayon's documented contract, nothing more):
//!  * each item's pipeline is invoked exactly once;
//!  * items run in an arbitrary order (chosen by the installed `sched::Scheduler`);
//!  * an indexed `collect` returns results in index order; unordered collections and `for_each`
//!    see completion (= execution) order;
//!  * `reduce` / `sum` / `min` / `max` combine along an arbitrary binary tree over contiguous
//!    segments, every leaf starting from the identity;
//!  * `fold` / `map_init` / `map_with` use an arbitrary contiguous segmentation, items of a
//!    segment are processed in index order and share the segment's state;
//!  * `current_num_threads()` is an explorer variable.
//! Items run to completion one at a time on the calling thread.

pub mod sched {
    use std::cell::{Cell, RefCell};

    pub trait Scheduler {
        /// execution order for `n` index slots (a permutation of 0..n)
        fn order(&mut self, n: usize) -> Vec<usize>;
        /// split point for reducing the range lo..hi (None = fold it sequentially)
        fn split(&mut self, lo: usize, hi: usize) -> Option<usize>;
        /// cut points (ascending, each in 1..n) of a contiguous segmentation of 0..n
        fn segments(&mut self, n: usize) -> Vec<usize>;
        /// whether `join` runs its second closure first
        fn join_swapped(&mut self) -> bool;
    }

    thread_local! {
        static SCHED: RefCell<Option<Box<dyn Scheduler>>> = RefCell::new(None);
        static THREADS: Cell<usize> = Cell::new(1);
        static CALLS: Cell<u64> = Cell::new(0);
    }

    pub fn set_scheduler(s: Option<Box<dyn Scheduler>>) {
        SCHED.with(|c| *c.borrow_mut() = s);
    }
    pub fn set_num_threads(k: usize) {
        THREADS.with(|c| c.set(k));
    }
    pub fn num_threads() -> usize {
        THREADS.with(|c| c.get())
    }
    /// number of parallel drives executed on this thread so far
    pub fn parallel_calls() -> u64 {
        CALLS.with(|c| c.get())
    }
    pub(crate) fn note_call() {
        CALLS.with(|c| c.set(c.get() + 1));
    }
    pub(crate) fn order(n: usize) -> Vec<usize> {
        let o = SCHED.with(|c| c.borrow_mut().as_mut().map(|s| s.order(n)));
        match o {
            Some(v) => {
                let mut seen = vec![false; n];
                assert!(v.len() == n && v.iter().all(|&i| i < n && !std::mem::replace(&mut seen[i], true)), "scheduler returned a non-permutation");
                v
            }
            None => (0..n).collect(),
        }
    }
    pub(crate) fn split(lo: usize, hi: usize) -> Option<usize> {
        let m = SCHED.with(|c| c.borrow_mut().as_mut().and_then(|s| s.split(lo, hi)));
        if let Some(m) = m {
            assert!(m > lo && m < hi, "scheduler returned an invalid split");
        }
        m
    }
    pub(crate) fn segments(n: usize) -> Vec<usize> {
        let v = SCHED.with(|c| c.borrow_mut().as_mut().map(|s| s.segments(n))).unwrap_or_default();
        assert!(v.windows(2).all(|w| w[0] < w[1]) && v.iter().all(|&c| c >= 1 && c < n.max(1)), "scheduler returned invalid cut points");
        v
    }
    pub(crate) fn join_swapped() -> bool {
        SCHED.with(|c| c.borrow_mut().as_mut().map(|s| s.join_swapped())).unwrap_or(false)
    }
}

pub fn current_num_threads() -> usize {
    sched::num_threads()
}
pub fn current_thread_index() -> Option<usize> {
    Some(0)
}

pub fn join<A, B, RA, RB>(a: A, b: B) -> (RA, RB)
where
    A: FnOnce() -> RA + Send,
    B: FnOnce() -> RB + Send,
    RA: Send,
    RB: Send,
{
    if sched::join_swapped() {
        let rb = b();
        let ra = a();
        (ra, rb)
    } else {
        let ra = a();
        let rb = b();
        (ra, rb)
    }
}

#[derive(Debug)]
pub struct ThreadPoolBuildError;
impl std::fmt::Display for ThreadPoolBuildError {
    fn fmt(&self, f: &mut std::fmt::Formatter<'_>) -> std::fmt::Result {
        write!(f, "thread pool build error (model)")
    }
}
impl std::error::Error for ThreadPoolBuildError {}

#[derive(Default)]
pub struct ThreadPoolBuilder {
    n: usize,
}
impl ThreadPoolBuilder {
    pub fn new() -> Self {
        ThreadPoolBuilder { n: 0 }
    }
    pub fn num_threads(mut self, n: usize) -> Self {
        self.n = n;
        self
    }
    pub fn build(self) -> Result<ThreadPool, ThreadPoolBuildError> {
        Ok(ThreadPool { n: if self.n == 0 { 16 } else { self.n } })
    }
    pub fn build_global(self) -> Result<(), ThreadPoolBuildError> {
        sched::set_num_threads(if self.n == 0 { 16 } else { self.n });
        Ok(())
    }
}
pub struct ThreadPool {
    n: usize,
}
impl ThreadPool {
    pub fn install<OP, R>(&self, op: OP) -> R
    where
        OP: FnOnce() -> R + Send,
        R: Send,
    {
        let prev = sched::num_threads();
        sched::set_num_threads(self.n);
        let r = op();
        sched::set_num_threads(prev);
        r
    }
    pub fn current_num_threads(&self) -> usize {
        self.n
    }
}

pub mod iter {
    use crate::sched;
    use std::collections::{BTreeMap, BTreeSet, HashMap, HashSet};
    use std::hash::{BuildHasher, Hash};

    /// A parallel iterator = `slots()` index slots whose pipelines are run one by one by a driver.
    pub trait ParallelIterator: Sized + Send {
        type Item: Send;

        #[doc(hidden)]
        fn prepare(&mut self);
        #[doc(hidden)]
        fn slots(&self) -> usize;
        /// segment id of a slot when some adaptor carries per-segment state (items of one segment
        /// must then run consecutively in index order)
        #[doc(hidden)]
        fn segment_of(&self, _slot: usize) -> Option<usize> {
            None
        }
        #[doc(hidden)]
        fn run_slot(&mut self, slot: usize) -> Option<Self::Item>;
        /// internal sources that only re-package already computed items are not scheduled again
        #[doc(hidden)]
        fn already_computed(&self) -> bool {
            false
        }

        fn map<F, R>(self, map_op: F) -> Map<Self, F>
        where
            F: Fn(Self::Item) -> R + Sync + Send,
            R: Send,
        {
            Map { base: self, map_op }
        }
        fn map_with<F, T, R>(self, init: T, map_op: F) -> MapWith<Self, T, F>
        where
            F: Fn(&mut T, Self::Item) -> R + Sync + Send,
            T: Send + Clone,
            R: Send,
        {
            MapWith { base: self, item: init, map_op, cuts: vec![], states: vec![] }
        }
        fn map_init<F, INIT, T, R>(self, init: INIT, map_op: F) -> MapInit<Self, INIT, F>
        where
            F: Fn(&mut T, Self::Item) -> R + Sync + Send,
            INIT: Fn() -> T + Sync + Send,
            T: Send,
            R: Send,
        {
            MapInit { base: self, init, map_op, cuts: vec![], states: vec![] }
        }
        fn filter<P>(self, filter_op: P) -> Filter<Self, P>
        where
            P: Fn(&Self::Item) -> bool + Sync + Send,
        {
            Filter { base: self, filter_op }
        }
        fn filter_map<P, R>(self, filter_op: P) -> FilterMap<Self, P>
        where
            P: Fn(Self::Item) -> Option<R> + Sync + Send,
            R: Send,
        {
            FilterMap { base: self, filter_op }
        }
        fn inspect<OP>(self, inspect_op: OP) -> Map<Self, Box<dyn Fn(Self::Item) -> Self::Item + Sync + Send>>
        where
            OP: Fn(&Self::Item) + Sync + Send + 'static,
            Self::Item: 'static,
        {
            Map { base: self, map_op: Box::new(move |x| { inspect_op(&x); x }) }
        }
        fn cloned<'a, T>(self) -> Map<Self, fn(&'a T) -> T>
        where
            T: 'a + Clone + Send + Sync,
            Self: ParallelIterator<Item = &'a T>,
        {
            fn c<T: Clone>(x: &T) -> T {
                x.clone()
            }
            Map { base: self, map_op: c::<T> as fn(&'a T) -> T }
        }
        fn copied<'a, T>(self) -> Map<Self, fn(&'a T) -> T>
        where
            T: 'a + Copy + Send + Sync,
            Self: ParallelIterator<Item = &'a T>,
        {
            fn c<T: Copy>(x: &T) -> T {
                *x
            }
            Map { base: self, map_op: c::<T> as fn(&'a T) -> T }
        }
        fn fold<T, ID, F>(self, identity: ID, fold_op: F) -> Fold<Self, ID, F>
        where
            F: Fn(T, Self::Item) -> T + Sync + Send,
            ID: Fn() -> T + Sync + Send,
            T: Send,
        {
            Fold { base: self, identity, fold_op, out: vec![] }
        }
        fn flat_map<F, PI>(self, map_op: F) -> VecSource<<PI::Iter as ParallelIterator>::Item>
        where
            F: Fn(Self::Item) -> PI + Sync + Send,
            PI: IntoParallelIterator,
        {
            // structure-changing: materialise (outer items in schedule order, inner collected in index order)
            let outer = drive(self);
            let mut all = vec![];
            for it in outer.values.into_iter().flatten() {
                let inner: Vec<_> = map_op(it).into_par_iter().collect();
                all.extend(inner);
            }
            VecSource { items: all.into_iter().map(Some).collect() }
        }
        fn for_each<OP>(self, op: OP)
        where
            OP: Fn(Self::Item) + Sync + Send,
        {
            let _ = drive(self.map(op));
        }
        fn count(self) -> usize {
            drive(self).values.iter().filter(|x| x.is_some()).count()
        }
        fn collect<C>(self) -> C
        where
            C: FromParallelIterator<Self::Item>,
        {
            C::from_par_iter(self)
        }
        fn reduce<OP, ID>(self, identity: ID, op: OP) -> Self::Item
        where
            OP: Fn(Self::Item, Self::Item) -> Self::Item + Sync + Send,
            ID: Fn() -> Self::Item + Sync + Send,
        {
            let vals: Vec<Option<Self::Item>> = drive(self).values.into_iter().filter(|x| x.is_some()).collect();
            let mut vals = vals;
            tree_reduce(&mut vals, 0, usize::MAX, &identity, &op)
        }
        fn reduce_with<OP>(self, op: OP) -> Option<Self::Item>
        where
            OP: Fn(Self::Item, Self::Item) -> Self::Item + Sync + Send,
        {
            let r = self.map(Some).reduce(|| None, |a, b| match (a, b) {
                (Some(a), Some(b)) => Some(op(a, b)),
                (Some(a), None) => Some(a),
                (None, b) => b,
            });
            r
        }
        fn sum<S>(self) -> S
        where
            S: Send + std::iter::Sum<Self::Item> + std::iter::Sum<S>,
        {
            let vals: Vec<Option<Self::Item>> = drive(self).values.into_iter().filter(|x| x.is_some()).collect();
            let mut vals = vals;
            tree_sum(&mut vals, 0, usize::MAX)
        }
        fn min_by<F>(self, f: F) -> Option<Self::Item>
        where
            F: Sync + Send + Fn(&Self::Item, &Self::Item) -> std::cmp::Ordering,
        {
            self.reduce_with(|a, b| if f(&a, &b) == std::cmp::Ordering::Greater { b } else { a })
        }
        fn max_by<F>(self, f: F) -> Option<Self::Item>
        where
            F: Sync + Send + Fn(&Self::Item, &Self::Item) -> std::cmp::Ordering,
        {
            self.reduce_with(|a, b| if f(&a, &b) == std::cmp::Ordering::Greater { a } else { b })
        }
        fn min(self) -> Option<Self::Item>
        where
            Self::Item: Ord,
        {
            self.min_by(|a, b| a.cmp(b))
        }
        fn max(self) -> Option<Self::Item>
        where
            Self::Item: Ord,
        {
            self.max_by(|a, b| a.cmp(b))
        }
        fn min_by_key<K, F>(self, f: F) -> Option<Self::Item>
        where
            K: Ord + Send,
            F: Sync + Send + Fn(&Self::Item) -> K,
        {
            self.min_by(|a, b| f(a).cmp(&f(b)))
        }
        fn max_by_key<K, F>(self, f: F) -> Option<Self::Item>
        where
            K: Ord + Send,
            F: Sync + Send + Fn(&Self::Item) -> K,
        {
            self.max_by(|a, b| f(a).cmp(&f(b)))
        }
        fn any<P>(self, predicate: P) -> bool
        where
            P: Fn(Self::Item) -> bool + Sync + Send,
        {
            drive(self.map(predicate)).values.into_iter().flatten().any(|b| b)
        }
        fn all<P>(self, predicate: P) -> bool
        where
            P: Fn(Self::Item) -> bool + Sync + Send,
        {
            drive(self.map(predicate)).values.into_iter().flatten().all(|b| b)
        }
        fn find_any<P>(self, predicate: P) -> Option<Self::Item>
        where
            P: Fn(&Self::Item) -> bool + Sync + Send,
        {
            // "any" match: the first in completion order
            let d = drive(self.filter(predicate));
            let mut vals = d.values;
            for i in d.order {
                if vals[i].is_some() {
                    return vals[i].take();
                }
            }
            None
        }
    }

    fn tree_reduce<T, ID: Fn() -> T, OP: Fn(T, T) -> T>(vals: &mut [Option<T>], lo: usize, hi: usize, identity: &ID, op: &OP) -> T {
        let hi = hi.min(vals.len());
        if hi - lo >= 2 {
            if let Some(m) = sched::split(lo, hi) {
                let a = tree_reduce(vals, lo, m, identity, op);
                let b = tree_reduce(vals, m, hi, identity, op);
                return op(a, b);
            }
        }
        let mut acc = identity();
        for v in vals[lo..hi].iter_mut() {
            acc = op(acc, v.take().unwrap());
        }
        acc
    }
    fn tree_sum<T, S: std::iter::Sum<T> + std::iter::Sum<S>>(vals: &mut [Option<T>], lo: usize, hi: usize) -> S {
        let hi = hi.min(vals.len());
        if hi - lo >= 2 {
            if let Some(m) = sched::split(lo, hi) {
                let a: S = tree_sum(vals, lo, m);
                let b: S = tree_sum(vals, m, hi);
                return [a, b].into_iter().sum();
            }
        }
        vals[lo..hi].iter_mut().map(|v| v.take().unwrap()).sum()
    }

    pub struct Driven<T> {
        pub values: Vec<Option<T>>,
        pub order: Vec<usize>,
    }

    /// runs every slot exactly once in the scheduler's order; results per slot in index order
    pub fn drive<P: ParallelIterator>(mut p: P) -> Driven<P::Item> {
        p.prepare();
        let n = p.slots();
        if p.already_computed() {
            let values = (0..n).map(|i| p.run_slot(i)).collect();
            return Driven { values, order: (0..n).collect() };
        }
        sched::note_call();
        let mut order = sched::order(n);
        // per-segment state: the items of a segment run consecutively, in index order
        if (0..n).any(|i| p.segment_of(i).is_some()) {
            let mut seg_first: Vec<(usize, usize)> = vec![]; // (segment, position of first occurrence)
            for (pos, &i) in order.iter().enumerate() {
                let s = p.segment_of(i).unwrap_or(usize::MAX - i);
                if !seg_first.iter().any(|x| x.0 == s) {
                    seg_first.push((s, pos));
                }
            }
            let mut new_order = vec![];
            for (s, _) in seg_first {
                let mut items: Vec<usize> = (0..n).filter(|&i| p.segment_of(i).unwrap_or(usize::MAX - i) == s).collect();
                items.sort();
                new_order.extend(items);
            }
            order = new_order;
        }
        let mut values: Vec<Option<P::Item>> = (0..n).map(|_| None).collect();
        for &i in &order {
            values[i] = p.run_slot(i);
        }
        Driven { values, order }
    }

    pub trait IndexedParallelIterator: ParallelIterator {
        fn enumerate(self) -> Enumerate<Self> {
            Enumerate { base: self }
        }
        fn len(&self) -> usize {
            self.slots()
        }
        fn collect_into_vec(self, target: &mut Vec<Self::Item>) {
            *target = self.collect();
        }
        fn zip<Z>(self, other: Z) -> Zip<Self, Z::Iter>
        where
            Z: IntoParallelIterator,
            Z::Iter: IndexedParallelIterator,
        {
            Zip { a: self, b: other.into_par_iter() }
        }
    }

    // ---------------------------------------------------------------- sources
    pub struct VecSource<T> {
        pub(crate) items: Vec<Option<T>>,
    }
    impl<T: Send> ParallelIterator for VecSource<T> {
        type Item = T;
        fn prepare(&mut self) {}
        fn slots(&self) -> usize {
            self.items.len()
        }
        fn run_slot(&mut self, slot: usize) -> Option<T> {
            self.items[slot].take()
        }
    }
    /// results that were already produced by a scheduled drive (used when collecting into Result / Option)
    pub struct Computed<T> {
        items: Vec<Option<T>>,
    }
    impl<T: Send> ParallelIterator for Computed<T> {
        type Item = T;
        fn prepare(&mut self) {}
        fn slots(&self) -> usize {
            self.items.len()
        }
        fn run_slot(&mut self, slot: usize) -> Option<T> {
            self.items[slot].take()
        }
        fn already_computed(&self) -> bool {
            true
        }
    }
    impl<T: Send> IndexedParallelIterator for VecSource<T> {}

    pub struct SliceIter<'a, T> {
        pub(crate) slice: &'a [T],
    }
    impl<'a, T: Sync + 'a> ParallelIterator for SliceIter<'a, T> {
        type Item = &'a T;
        fn prepare(&mut self) {}
        fn slots(&self) -> usize {
            self.slice.len()
        }
        fn run_slot(&mut self, slot: usize) -> Option<&'a T> {
            Some(&self.slice[slot])
        }
    }
    impl<'a, T: Sync + 'a> IndexedParallelIterator for SliceIter<'a, T> {}

    pub struct RangeIter<T> {
        pub(crate) start: T,
        pub(crate) len: usize,
    }
    macro_rules! range_impl {
        ($($t:ty),*) => {$(
            impl ParallelIterator for RangeIter<$t> {
                type Item = $t;
                fn prepare(&mut self) {}
                fn slots(&self) -> usize { self.len }
                fn run_slot(&mut self, slot: usize) -> Option<$t> { Some(self.start + slot as $t) }
            }
            impl IndexedParallelIterator for RangeIter<$t> {}
            impl IntoParallelIterator for std::ops::Range<$t> {
                type Iter = RangeIter<$t>;
                type Item = $t;
                fn into_par_iter(self) -> RangeIter<$t> {
                    let len = if self.end > self.start { (self.end - self.start) as usize } else { 0 };
                    RangeIter { start: self.start, len }
                }
            }
        )*};
    }
    range_impl!(usize, u32, u64, i32, i64, u8, u16, i8, i16, isize);

    // ---------------------------------------------------------------- adaptors
    pub struct Map<I, F> {
        pub(crate) base: I,
        pub(crate) map_op: F,
    }
    impl<I, F, R> ParallelIterator for Map<I, F>
    where
        I: ParallelIterator,
        F: Fn(I::Item) -> R + Sync + Send,
        R: Send,
    {
        type Item = R;
        fn prepare(&mut self) {
            self.base.prepare()
        }
        fn slots(&self) -> usize {
            self.base.slots()
        }
        fn segment_of(&self, s: usize) -> Option<usize> {
            self.base.segment_of(s)
        }
        fn run_slot(&mut self, slot: usize) -> Option<R> {
            self.base.run_slot(slot).map(&self.map_op)
        }
    }
    impl<I, F, R> IndexedParallelIterator for Map<I, F>
    where
        I: IndexedParallelIterator,
        F: Fn(I::Item) -> R + Sync + Send,
        R: Send,
    {
    }

    /// a nullary closure and its result type (lets the adaptors keep rayon's own type parameter lists)
    pub trait InitFn {
        type Out;
        fn init(&self) -> Self::Out;
    }
    impl<T, FN: Fn() -> T> InitFn for FN {
        type Out = T;
        fn init(&self) -> T {
            self()
        }
    }

    pub struct MapInit<I, INIT: InitFn, F> {
        base: I,
        init: INIT,
        map_op: F,
        cuts: Vec<usize>,
        states: Vec<Option<INIT::Out>>,
    }
    impl<I, INIT, T, F, R> ParallelIterator for MapInit<I, INIT, F>
    where
        I: ParallelIterator,
        INIT: Fn() -> T + Sync + Send,
        F: Fn(&mut T, I::Item) -> R + Sync + Send,
        T: Send,
        R: Send,
    {
        type Item = R;
        fn prepare(&mut self) {
            self.base.prepare();
            self.cuts = sched::segments(self.base.slots());
            self.states = (0..=self.cuts.len()).map(|_| None).collect();
        }
        fn slots(&self) -> usize {
            self.base.slots()
        }
        fn segment_of(&self, s: usize) -> Option<usize> {
            Some(self.cuts.iter().filter(|&&c| c <= s).count())
        }
        fn run_slot(&mut self, slot: usize) -> Option<R> {
            let seg = self.cuts.iter().filter(|&&c| c <= slot).count();
            let item = self.base.run_slot(slot)?;
            if self.states[seg].is_none() {
                self.states[seg] = Some((self.init)());
            }
            Some((self.map_op)(self.states[seg].as_mut().unwrap(), item))
        }
    }
    impl<I, INIT, T, F, R> IndexedParallelIterator for MapInit<I, INIT, F>
    where
        I: IndexedParallelIterator,
        INIT: Fn() -> T + Sync + Send,
        F: Fn(&mut T, I::Item) -> R + Sync + Send,
        T: Send,
        R: Send,
    {
    }

    pub struct MapWith<I, T, F> {
        base: I,
        item: T,
        map_op: F,
        cuts: Vec<usize>,
        states: Vec<Option<T>>,
    }
    impl<I, T, F, R> ParallelIterator for MapWith<I, T, F>
    where
        I: ParallelIterator,
        F: Fn(&mut T, I::Item) -> R + Sync + Send,
        T: Send + Clone,
        R: Send,
    {
        type Item = R;
        fn prepare(&mut self) {
            self.base.prepare();
            self.cuts = sched::segments(self.base.slots());
            self.states = (0..=self.cuts.len()).map(|_| None).collect();
        }
        fn slots(&self) -> usize {
            self.base.slots()
        }
        fn segment_of(&self, s: usize) -> Option<usize> {
            Some(self.cuts.iter().filter(|&&c| c <= s).count())
        }
        fn run_slot(&mut self, slot: usize) -> Option<R> {
            let seg = self.cuts.iter().filter(|&&c| c <= slot).count();
            let item = self.base.run_slot(slot)?;
            if self.states[seg].is_none() {
                self.states[seg] = Some(self.item.clone());
            }
            Some((self.map_op)(self.states[seg].as_mut().unwrap(), item))
        }
    }
    impl<I, T, F, R> IndexedParallelIterator for MapWith<I, T, F>
    where
        I: IndexedParallelIterator,
        F: Fn(&mut T, I::Item) -> R + Sync + Send,
        T: Send + Clone,
        R: Send,
    {
    }

    pub struct Filter<I, P> {
        base: I,
        filter_op: P,
    }
    impl<I, P> ParallelIterator for Filter<I, P>
    where
        I: ParallelIterator,
        P: Fn(&I::Item) -> bool + Sync + Send,
    {
        type Item = I::Item;
        fn prepare(&mut self) {
            self.base.prepare()
        }
        fn slots(&self) -> usize {
            self.base.slots()
        }
        fn segment_of(&self, s: usize) -> Option<usize> {
            self.base.segment_of(s)
        }
        fn run_slot(&mut self, slot: usize) -> Option<I::Item> {
            self.base.run_slot(slot).filter(|x| (self.filter_op)(x))
        }
    }

    pub struct FilterMap<I, P> {
        base: I,
        filter_op: P,
    }
    impl<I, P, R> ParallelIterator for FilterMap<I, P>
    where
        I: ParallelIterator,
        P: Fn(I::Item) -> Option<R> + Sync + Send,
        R: Send,
    {
        type Item = R;
        fn prepare(&mut self) {
            self.base.prepare()
        }
        fn slots(&self) -> usize {
            self.base.slots()
        }
        fn segment_of(&self, s: usize) -> Option<usize> {
            self.base.segment_of(s)
        }
        fn run_slot(&mut self, slot: usize) -> Option<R> {
            self.base.run_slot(slot).and_then(&self.filter_op)
        }
    }

    pub struct Enumerate<I> {
        base: I,
    }
    impl<I: IndexedParallelIterator> ParallelIterator for Enumerate<I> {
        type Item = (usize, I::Item);
        fn prepare(&mut self) {
            self.base.prepare()
        }
        fn slots(&self) -> usize {
            self.base.slots()
        }
        fn segment_of(&self, s: usize) -> Option<usize> {
            self.base.segment_of(s)
        }
        fn run_slot(&mut self, slot: usize) -> Option<Self::Item> {
            self.base.run_slot(slot).map(|x| (slot, x))
        }
    }
    impl<I: IndexedParallelIterator> IndexedParallelIterator for Enumerate<I> {}

    pub struct Zip<A, B> {
        a: A,
        b: B,
    }
    impl<A: IndexedParallelIterator, B: IndexedParallelIterator> ParallelIterator for Zip<A, B> {
        type Item = (A::Item, B::Item);
        fn prepare(&mut self) {
            self.a.prepare();
            self.b.prepare();
        }
        fn slots(&self) -> usize {
            self.a.slots().min(self.b.slots())
        }
        fn run_slot(&mut self, slot: usize) -> Option<Self::Item> {
            match (self.a.run_slot(slot), self.b.run_slot(slot)) {
                (Some(x), Some(y)) => Some((x, y)),
                _ => None,
            }
        }
    }
    impl<A: IndexedParallelIterator, B: IndexedParallelIterator> IndexedParallelIterator for Zip<A, B> {}

    /// `fold`: an arbitrary contiguous segmentation, each segment folded in index order from the identity
    pub struct Fold<I, ID: InitFn, F> {
        base: I,
        identity: ID,
        fold_op: F,
        out: Vec<Option<ID::Out>>,
    }
    impl<I, T, ID, F> ParallelIterator for Fold<I, ID, F>
    where
        I: ParallelIterator,
        F: Fn(T, I::Item) -> T + Sync + Send,
        ID: Fn() -> T + Sync + Send,
        T: Send,
    {
        type Item = T;
        fn prepare(&mut self) {
            self.base.prepare();
            let n = self.base.slots();
            let cuts = sched::segments(n);
            let mut bounds = vec![0];
            bounds.extend(cuts);
            bounds.push(n);
            let nseg = bounds.len() - 1;
            let seg_order = sched::order(nseg);
            let mut out: Vec<Option<T>> = (0..nseg).map(|_| None).collect();
            for s in seg_order {
                let mut acc = (self.identity)();
                for i in bounds[s]..bounds[s + 1] {
                    if let Some(x) = self.base.run_slot(i) {
                        acc = (self.fold_op)(acc, x);
                    }
                }
                out[s] = Some(acc);
            }
            self.out = out;
        }
        fn slots(&self) -> usize {
            self.out.len()
        }
        fn run_slot(&mut self, slot: usize) -> Option<T> {
            self.out[slot].take()
        }
    }

    // ---------------------------------------------------------------- conversions
    pub trait IntoParallelIterator {
        type Iter: ParallelIterator<Item = Self::Item>;
        type Item: Send;
        fn into_par_iter(self) -> Self::Iter;
    }
    impl<T: ParallelIterator> IntoParallelIterator for T {
        type Iter = T;
        type Item = T::Item;
        fn into_par_iter(self) -> T {
            self
        }
    }
    impl<T: Send> IntoParallelIterator for Vec<T> {
        type Iter = crate::vec::IntoIter<T>;
        type Item = T;
        fn into_par_iter(self) -> crate::vec::IntoIter<T> {
            VecSource { items: self.into_iter().map(Some).collect() }
        }
    }
    impl<'a, T: Sync + 'a> IntoParallelIterator for &'a Vec<T> {
        type Iter = SliceIter<'a, T>;
        type Item = &'a T;
        fn into_par_iter(self) -> SliceIter<'a, T> {
            SliceIter { slice: self.as_slice() }
        }
    }
    impl<'a, T: Sync + 'a> IntoParallelIterator for &'a [T] {
        type Iter = SliceIter<'a, T>;
        type Item = &'a T;
        fn into_par_iter(self) -> SliceIter<'a, T> {
            SliceIter { slice: self }
        }
    }
    impl<K: Send + Eq + Hash, V: Send, S: BuildHasher> IntoParallelIterator for HashMap<K, V, S> {
        type Iter = VecSource<(K, V)>;
        type Item = (K, V);
        fn into_par_iter(self) -> VecSource<(K, V)> {
            VecSource { items: self.into_iter().map(Some).collect() }
        }
    }
    impl<'a, K: Sync + Eq + Hash, V: Sync, S: BuildHasher> IntoParallelIterator for &'a HashMap<K, V, S> {
        type Iter = VecSource<(&'a K, &'a V)>;
        type Item = (&'a K, &'a V);
        fn into_par_iter(self) -> VecSource<(&'a K, &'a V)> {
            VecSource { items: self.iter().map(Some).collect() }
        }
    }
    impl<K: Send + Eq + Hash, S: BuildHasher> IntoParallelIterator for HashSet<K, S> {
        type Iter = VecSource<K>;
        type Item = K;
        fn into_par_iter(self) -> VecSource<K> {
            VecSource { items: self.into_iter().map(Some).collect() }
        }
    }
    impl<'a, K: Sync + Eq + Hash, S: BuildHasher> IntoParallelIterator for &'a HashSet<K, S> {
        type Iter = VecSource<&'a K>;
        type Item = &'a K;
        fn into_par_iter(self) -> VecSource<&'a K> {
            VecSource { items: self.iter().map(Some).collect() }
        }
    }

    pub trait IntoParallelRefIterator<'data> {
        type Iter: ParallelIterator<Item = Self::Item>;
        type Item: Send + 'data;
        fn par_iter(&'data self) -> Self::Iter;
    }
    impl<'data, I: 'data + ?Sized> IntoParallelRefIterator<'data> for I
    where
        &'data I: IntoParallelIterator,
    {
        type Iter = <&'data I as IntoParallelIterator>::Iter;
        type Item = <&'data I as IntoParallelIterator>::Item;
        fn par_iter(&'data self) -> Self::Iter {
            self.into_par_iter()
        }
    }

    pub trait FromParallelIterator<T: Send> {
        fn from_par_iter<I>(par_iter: I) -> Self
        where
            I: IntoParallelIterator<Item = T>;
    }
    impl<T: Send> FromParallelIterator<T> for Vec<T> {
        fn from_par_iter<I: IntoParallelIterator<Item = T>>(p: I) -> Self {
            // results are gathered in index order whatever the execution order was
            drive(p.into_par_iter()).values.into_iter().flatten().collect()
        }
    }
    fn in_completion_order<T>(d: Driven<T>) -> Vec<T> {
        let mut vals = d.values;
        let mut out = vec![];
        for i in d.order {
            if let Some(x) = vals[i].take() {
                out.push(x);
            }
        }
        out
    }
    impl<K: Eq + Hash + Send, V: Send, S: BuildHasher + Default + Send> FromParallelIterator<(K, V)> for HashMap<K, V, S> {
        fn from_par_iter<I: IntoParallelIterator<Item = (K, V)>>(p: I) -> Self {
            in_completion_order(drive(p.into_par_iter())).into_iter().collect()
        }
    }
    impl<K: Eq + Hash + Send, S: BuildHasher + Default + Send> FromParallelIterator<K> for HashSet<K, S> {
        fn from_par_iter<I: IntoParallelIterator<Item = K>>(p: I) -> Self {
            in_completion_order(drive(p.into_par_iter())).into_iter().collect()
        }
    }
    impl<K: Ord + Send, V: Send> FromParallelIterator<(K, V)> for BTreeMap<K, V> {
        fn from_par_iter<I: IntoParallelIterator<Item = (K, V)>>(p: I) -> Self {
            in_completion_order(drive(p.into_par_iter())).into_iter().collect()
        }
    }
    impl<K: Ord + Send> FromParallelIterator<K> for BTreeSet<K> {
        fn from_par_iter<I: IntoParallelIterator<Item = K>>(p: I) -> Self {
            in_completion_order(drive(p.into_par_iter())).into_iter().collect()
        }
    }
    impl FromParallelIterator<String> for String {
        fn from_par_iter<I: IntoParallelIterator<Item = String>>(p: I) -> Self {
            drive(p.into_par_iter()).values.into_iter().flatten().collect()
        }
    }
    impl<T: Send, E: Send, C: FromParallelIterator<T>> FromParallelIterator<Result<T, E>> for Result<C, E> {
        fn from_par_iter<I: IntoParallelIterator<Item = Result<T, E>>>(p: I) -> Self {
            let d = drive(p.into_par_iter());
            let mut oks = vec![];
            // "some" error is reported: the first in completion order
            let mut vals = d.values;
            for &i in &d.order {
                if let Some(Err(_)) = &vals[i] {
                    if let Some(Err(e)) = vals[i].take() {
                        return Err(e);
                    }
                }
            }
            for v in vals.into_iter().flatten() {
                if let Ok(x) = v {
                    oks.push(x);
                }
            }
            Ok(C::from_par_iter(Computed { items: oks.into_iter().map(Some).collect() }))
        }
    }
}

pub mod vec {
    pub type IntoIter<T> = crate::iter::VecSource<T>;
}
pub mod slice {
    pub type Iter<'a, T> = crate::iter::SliceIter<'a, T>;
}
pub mod range {
    pub type Iter<T> = crate::iter::RangeIter<T>;
}

pub mod prelude {
    pub use crate::iter::{FromParallelIterator, IndexedParallelIterator, IntoParallelIterator, IntoParallelRefIterator, ParallelIterator};
}
