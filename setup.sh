#!/bin/bash
# builds the framework offline from files on disk only
set -e
export CARGO_NET_OFFLINE=true
cd /verif/harness && cargo build --release --offline
if [ -d /verif/harness-par ]; then cd /verif/harness-par && cargo build --release --offline; fi
