//! gvpar — C07: parallel execution is unobservable. E4: exhaustive / deviation-bounded exploration
//! of schedules of the real parallel drivers under a contract model of rayon (see /verif/shims/rayon),
//! plus conformance of that model against real rayon (stage D, run by the `gv` binary).
#[path = "../../harness/src/c07_inputs.rs"]
mod c07_inputs;
#[path = "../../harness/src/common.rs"]
mod common;
#[path = "../../harness/src/e2.rs"]
mod e2;

use c07_inputs::*;
use common::*;
use e2::*;
use graphrs::verif_hooks;
use rayon::sched::{self, Scheduler};
use std::cell::RefCell;
use std::collections::{BTreeMap, BTreeSet};
use std::rc::Rc;
use std::sync::Mutex;
use std::time::{Duration, Instant};

// ------------------------------------------------------------------ schedule explorer

#[derive(Clone, Debug)]
struct Pt {
    arity: usize,
    choice: usize,
}

#[derive(Default)]
struct ExpState {
    prefix: Vec<usize>,
    points: Vec<Pt>,
    out_of_order: bool,
}

struct Exp(Rc<RefCell<ExpState>>);
impl Exp {
    fn choose(&mut self, arity: usize) -> usize {
        if arity <= 1 {
            return 0;
        }
        let mut s = self.0.borrow_mut();
        let i = s.points.len();
        let c = if i < s.prefix.len() { s.prefix[i].min(arity - 1) } else { 0 };
        s.points.push(Pt { arity, choice: c });
        c
    }
}
impl Scheduler for Exp {
    fn order(&mut self, n: usize) -> Vec<usize> {
        // step by step: run the c-th lowest pending item (0 = the lowest index = the default)
        let mut pending: Vec<usize> = (0..n).collect();
        let mut out = vec![];
        while !pending.is_empty() {
            let c = self.choose(pending.len());
            if c != 0 {
                self.0.borrow_mut().out_of_order = true;
            }
            out.push(pending.remove(c));
        }
        out
    }
    fn split(&mut self, lo: usize, hi: usize) -> Option<usize> {
        let c = self.choose(hi - lo);
        if c == 0 {
            None
        } else {
            Some(lo + c)
        }
    }
    fn segments(&mut self, n: usize) -> Vec<usize> {
        (1..n).filter(|_| self.choose(2) == 1).collect()
    }
    fn join_swapped(&mut self) -> bool {
        self.choose(2) == 1
    }
}

struct Stats {
    schedules: u64,
    out_of_order: u64,
    truncated: bool,
    max_points: usize,
}

/// explores every schedule of `f` with at most `bound` deviations (non-default choices); `visit(digest, prefix)`
fn explore_schedules(bound: usize, budget: u64, f: &dyn Fn() -> u64, visit: &mut dyn FnMut(Result<u64, PanicInfo>, &[usize])) -> Stats {
    let mut st = Stats { schedules: 0, out_of_order: 0, truncated: false, max_points: 0 };
    fn rec(prefix: Vec<usize>, devs: usize, bound: usize, budget: u64, f: &dyn Fn() -> u64, visit: &mut dyn FnMut(Result<u64, PanicInfo>, &[usize]), st: &mut Stats) {
        if st.schedules >= budget {
            st.truncated = true;
            return;
        }
        let state = Rc::new(RefCell::new(ExpState { prefix: prefix.clone(), points: vec![], out_of_order: false }));
        sched::set_scheduler(Some(Box::new(Exp(state.clone()))));
        let r = guarded(f);
        sched::set_scheduler(None);
        let s = state.borrow();
        st.schedules += 1;
        if s.out_of_order {
            st.out_of_order += 1;
        }
        st.max_points = st.max_points.max(s.points.len());
        visit(r, &prefix);
        if s.points.len() < prefix.len() {
            eprintln!("MACHINERY-ERROR: schedule replay diverged ({} points, prefix {})", s.points.len(), prefix.len());
            std::process::exit(2);
        }
        if devs >= bound {
            return;
        }
        let points = s.points.clone();
        drop(s);
        for i in prefix.len()..points.len() {
            for alt in 1..points[i].arity {
                let mut p: Vec<usize> = points[..i].iter().map(|x| x.choice).collect();
                p.push(alt);
                rec(p, devs + 1, bound, budget, f, visit, st);
                if st.truncated {
                    return;
                }
            }
        }
    }
    rec(vec![], 0, bound, budget, f, visit, &mut st);
    st
}

// ------------------------------------------------------------------ static audit (atomicity assumption)

fn token_audit() -> Vec<String> {
    let toks = ["unsafe", "static mut", "thread_local!", "RefCell", "Cell<", "Mutex", "RwLock", "Atomic", "OnceCell", "OnceLock", "Lazy", "lazy_static"];
    let mut found = vec![];
    fn walk(dir: &std::path::Path, toks: &[&str], found: &mut Vec<String>) {
        if let Ok(rd) = std::fs::read_dir(dir) {
            for e in rd.flatten() {
                let p = e.path();
                if p.is_dir() {
                    walk(&p, toks, found);
                } else if p.extension().map_or(false, |x| x == "rs") {
                    let name = p.to_string_lossy().to_string();
                    if name.ends_with("src/verif_hooks.rs") || name.ends_with("graph/verif.rs") {
                        continue; // the harness's own feature-guarded seams
                    }
                    if let Ok(s) = std::fs::read_to_string(&p) {
                        for (ln, line) in s.lines().enumerate() {
                            let t = line.trim_start();
                            if t.starts_with("//") {
                                continue;
                            }
                            for tok in toks {
                                if line.contains(tok) {
                                    found.push(format!("{}:{}: {}", name.replace("/repo/", ""), ln + 1, tok));
                                }
                            }
                        }
                    }
                }
            }
        }
    }
    walk(std::path::Path::new("/repo/src"), &toks, &mut found);
    found
}

fn assert_sync<T: Sync>() {}

// ------------------------------------------------------------------ stage B helpers (small graphs, forced parallel path)

fn small_calls<'a>(b: &'a Built) -> Vec<(String, Box<dyn Fn() -> u64 + 'a>)> {
    use graphrs::algorithms::centrality::{betweenness, closeness};
    use graphrs::algorithms::shortest_path::dijkstra;
    let g = &b.g;
    let mut v: Vec<(String, Box<dyn Fn() -> u64 + 'a>)> = vec![];
    fn h64(s: &str) -> u64 {
        let mut h: u64 = 0xcbf29ce484222325;
        for b in s.bytes() {
            h ^= b as u64;
            h = h.wrapping_mul(0x100000001b3);
        }
        h
    }
    let dig_pairs = |m: Result<std::collections::HashMap<N, std::collections::HashMap<N, graphrs::algorithms::shortest_path::ShortestPathInfo<N>>>, graphrs::Error>| -> u64 {
        match m {
            Err(e) => h64(&format!("{:?}", e.kind)),
            Ok(m) => {
                let mut items: Vec<String> = vec![];
                for (s, hm) in &m {
                    for (t, spi) in hm {
                        items.push(format!("{s}>{t}:{:016x}:{:?}", spi.distance.to_bits(), spi.paths));
                    }
                }
                items.sort();
                h64(&items.join(";"))
            }
        }
    };
    let dig_map = |m: Result<std::collections::HashMap<N, f64>, graphrs::Error>| -> u64 {
        match m {
            Err(e) => h64(&format!("{:?}", e.kind)),
            Ok(m) => {
                let mut items: Vec<String> = m.iter().map(|(k, v)| format!("{k}:{:016x}", v.to_bits())).collect();
                items.sort();
                h64(&items.join(";"))
            }
        }
    };
    let modes: Vec<bool> = if b.weighted { vec![true, false] } else { vec![false] };
    for w in modes {
        v.push((format!("all_pairs(w={w},paths)"), Box::new(move || dig_pairs(dijkstra::all_pairs(g, w, None, None, false, true)))));
        v.push((format!("all_pairs(w={w},fast)"), Box::new(move || dig_pairs(dijkstra::all_pairs(g, w, None, None, false, false)))));
        let names: Vec<N> = b.names.iter().rev().cloned().collect();
        v.push((format!("multi_source(w={w})"), Box::new(move || dig_pairs(dijkstra::multi_source(g, w, names.clone(), None, None, false, true)))));
        if b.n > 0 {
            let x = b.names[b.n / 2];
            v.push((format!("get_all_shortest_paths_involving({x},w={w})"), Box::new(move || {
                let mut items: Vec<String> = dijkstra::get_all_shortest_paths_involving(g, x, w).iter().map(|spi| format!("{:016x}:{:?}", spi.distance.to_bits(), spi.paths)).collect();
                items.sort();
                h64(&items.join(";"))
            })));
        }
        for flag in [false, true] {
            v.push((format!("betweenness_centrality(w={w},{flag})"), Box::new(move || dig_map(betweenness::betweenness_centrality(g, w, flag)))));
            v.push((format!("closeness_centrality(w={w},{flag})"), Box::new(move || dig_map(closeness::closeness_centrality(g, w, flag)))));
        }
    }
    v
}

fn main() {
    let args: Vec<String> = std::env::args().collect();
    if args.len() < 3 {
        eprintln!("usage: gvpar run C07 --tier quick|thorough | gvpar replay C07 <path>");
        std::process::exit(2);
    }
    install_panic_hook();
    if let Err(e) = hash_ownership_selftest() {
        eprintln!("MACHINERY-ERROR: {e}");
        std::process::exit(2);
    }
    assert_sync::<graphrs::Graph<usize, ()>>();
    assert_sync::<graphrs::Graph<String, ()>>();
    let seed: u64 = std::env::var("VERIF_SEED").ok().and_then(|s| s.parse().ok()).unwrap_or(0);
    let known = load_known_findings("/verif/known_findings.json").unwrap_or_else(|e| {
        eprintln!("MACHINERY-ERROR: {e}");
        std::process::exit(2)
    });
    let mut tier = std::env::var("VERIF_TIER").unwrap_or_else(|_| "quick".into());
    let mut i = 3;
    while i < args.len() {
        if args[i] == "--tier" && i + 1 < args.len() {
            tier = args[i + 1].clone();
            i += 1;
        }
        i += 1;
    }
    let replay_only: Option<String> = if args[1] == "replay" {
        let body = std::fs::read_to_string(&args[3]).expect("replay file");
        let v: serde_json::Value = serde_json::from_str(&body).expect("json");
        Some(v["case"].as_str().unwrap_or("").to_string())
    } else {
        None
    };
    let start = Instant::now();
    let rec = Recorder::new("C07", if replay_only.is_some() { &[] } else { &known });
    let mut out = RunOutput::new("model_checking");
    let deadline = start + Duration::from_secs_f64(wall_cap_s(&tier));
    // stage A runs in passes of growing deviation bound (every call gets the lower bound before any call gets the
    // higher one); each pass has its own share of the wall budget so that stages B-D always run
    let cap = wall_cap_s(&tier);
    let passes: Vec<(usize, u64, Instant)> = if tier == "quick" { vec![(1usize, 400u64, start + Duration::from_secs_f64(cap * 0.6))] } else { vec![(1usize, 3_000u64, start + Duration::from_secs_f64(cap * 0.25)), (2usize, 30_000u64, start + Duration::from_secs_f64(cap * 0.6))] };
    let mut bound_done = 0usize;

    // ---------------- stage A: production threshold, deviation-bounded schedules
    let inputs = large_inputs(&tier);
    let mut model_digests: BTreeMap<(String, String), BTreeSet<u64>> = BTreeMap::new();
    let mut r0: BTreeMap<(String, String), u64> = BTreeMap::new();
    let (mut schedules, mut ooo, mut distinct_max) = (0u64, 0u64, 0usize);
    let mut capped = false;
    for &(bound_a, budget_a, deadline_a) in &passes {
    let mut pass_capped = false;
    for inp in &inputs {
        let cs = calls(inp);
        for (ci, (cname, f)) in cs.iter().enumerate() {
            let case = format!("A|{}|{}", inp.name, cname);
            if let Some(rc) = &replay_only {
                if !rc.starts_with(&case) {
                    continue;
                }
            }
            // stage A is thinned in the quick tier: every call on the first inputs, then a rotating subset
            let big = inp.g.number_of_nodes() > 100;
            let special = cname.contains("-> error") || cname.contains("repeated sources");
            if !big && !special && tier == "quick" && replay_only.is_none() && (ci + inputs.iter().position(|x| x.name == inp.name).unwrap_or(0)) % 3 != 0 {
                continue;
            }
            if Instant::now() > deadline_a {
                capped = true;
                pass_capped = true;
                break;
            }
            if big && bound_a > 1 {
                continue; // big inputs are explored in the first pass only
            }
            sched::set_num_threads(1);
            let serial = match guarded(|| f()) {
                Ok(d) => d,
                Err(pi) => {
                    rec.record(Violation::new("no_panic", cname, case.clone(), format!("serial path panicked: {}", pi.msg)).with_panic(pi));
                    continue;
                }
            };
            r0.insert((inp.name.clone(), cname.clone()), serial);
            sched::set_num_threads(4);
            let before = sched::parallel_calls();
            let mut outcomes: BTreeSet<u64> = BTreeSet::new();
            let mut first_bad: Option<(Vec<usize>, Result<u64, PanicInfo>)> = None;
            // big inputs: the default schedule and the first few one-deviation schedules only (reported as truncated)
            let st = explore_schedules(bound_a, if big { if tier == "quick" { 6 } else { 40 } } else { budget_a }, &|| f(), &mut |r, prefix| {
                match &r {
                    Ok(d) => {
                        outcomes.insert(*d);
                        if *d != serial && first_bad.is_none() {
                            first_bad = Some((prefix.to_vec(), r.clone()));
                        }
                    }
                    Err(_) => {
                        if first_bad.is_none() {
                            first_bad = Some((prefix.to_vec(), r.clone()));
                        }
                    }
                }
            });
            sched::set_num_threads(1);
            if sched::parallel_calls() == before && !cname.contains("-> error") {
                out.machinery_errors.push(format!("{case}: the parallel path was not taken under the model (no parallel drive observed)"));
            }
            schedules += st.schedules;
            ooo += st.out_of_order;
            distinct_max = distinct_max.max(outcomes.len());
            if st.truncated {
                out.add("calls_truncated_by_budget", 1);
                if !big {
                    pass_capped = true;
                }
            }
            if let Some((prefix, r)) = first_bad {
                let detail = match &r {
                    Ok(d) => format!("result digest {d:016x} under schedule choices {prefix:?} (K=4) differs from the single-threaded digest {serial:016x}; {} distinct outcomes over {} schedules", outcomes.len(), st.schedules),
                    Err(pi) => format!("panicked under schedule choices {prefix:?}: {}", pi.msg),
                };
                let mut v = Violation::new("schedule_independence", cname, format!("{case}|sched={prefix:?}"), format!("input {}\n{detail}", inp.name));
                if let Err(pi) = r {
                    v = v.with_panic(pi);
                }
                rec.record(v);
            }
            model_digests.entry((inp.name.clone(), cname.clone())).or_default().extend(outcomes);
        }
    }
    if !pass_capped {
        bound_done = bound_a;
    }
    }
    out.set("stageA_inputs", inputs.len() as u64);
    out.set("stageA_schedules", schedules);
    out.set("stageA_deviation_bound_attempted", passes.last().unwrap().0 as u64);
    out.set("stageA_deviation_bound_completed_for_every_call", bound_done as u64);

    // ---------------- stage B: small graphs, forced parallel path, ALL schedules
    let fams: Vec<Family> = if tier == "quick" {
        vec![fam(Kind { directed: true, multi: false, loops: false }, 3, "w12", &ORD_ONE), fam(Kind { directed: false, multi: false, loops: false }, 4, "u", &ORD_ONE), fam(Kind { directed: false, multi: true, loops: true }, 2, "w12", &ORD_ONE)]
    } else {
        vec![
            fam(Kind { directed: true, multi: false, loops: false }, 3, "w12", &ORD_ONE),
            fam(Kind { directed: true, multi: false, loops: true }, 3, "u", &ORD_ONE),
            fam(Kind { directed: false, multi: false, loops: false }, 4, "w12", &ORD_ONE),
            fam(Kind { directed: true, multi: false, loops: false }, 4, "u", &ORD_ONE),
            fam(Kind { directed: false, multi: true, loops: true }, 2, "w12", &ORD_ONE),
            fam(Kind { directed: false, multi: false, loops: false }, 5, "u", &ORD_ONE),
        ]
    };
    let stats = E2Stats::new();
    let sb = Mutex::new((0u64, 0u64, 0usize)); // schedules, out of order, max distinct
    if replay_only.as_deref().map_or(true, |c| c.starts_with("g:")) {
        for f in fams {
            for_each_graph(&f, seed, start + Duration::from_secs_f64(cap * 0.85), &stats, |b, _c| {
                if let Some(rc) = &replay_only {
                    if !rc.starts_with(&b.case) {
                        return 0;
                    }
                }
                let mut k = 0u64;
                for (cname, call) in small_calls(b) {
                    verif_hooks::set_parallel_override(Some(false));
                    sched::set_num_threads(1);
                    let serial = guarded(|| call());
                    verif_hooks::set_parallel_override(Some(true));
                    sched::set_num_threads(3);
                    let mut outcomes: BTreeSet<u64> = BTreeSet::new();
                    let mut bad: Option<(Vec<usize>, String)> = None;
                    let st = explore_schedules(usize::MAX, 5_000, &|| call(), &mut |r, prefix| match (&r, &serial) {
                        (Ok(d), Ok(s)) => {
                            outcomes.insert(*d);
                            if d != s && bad.is_none() {
                                bad = Some((prefix.to_vec(), format!("digest {d:016x} vs serial {s:016x}")));
                            }
                        }
                        (Err(pi), Ok(_)) => {
                            if bad.is_none() {
                                bad = Some((prefix.to_vec(), format!("panicked: {}", pi.msg)));
                            }
                        }
                        _ => {}
                    });
                    verif_hooks::set_parallel_override(None);
                    sched::set_num_threads(1);
                    k += st.schedules;
                    {
                        let mut g = sb.lock().unwrap();
                        g.0 += st.schedules;
                        g.1 += st.out_of_order;
                        g.2 = g.2.max(outcomes.len());
                    }
                    if let Some((prefix, why)) = bad {
                        rec.record(Violation::new("schedule_independence", &cname, format!("{}|{cname}|sched={prefix:?}", b.case), format!("{}\nforced parallel path, schedule choices {prefix:?}: {why}", b.describe())).with_tags(b.tags()));
                    }
                }
                k
            });
        }
    }
    let sbv = sb.into_inner().unwrap();
    out.set("stageB_graphs", stats.graphs.load(std::sync::atomic::Ordering::Relaxed));
    out.set("stageB_schedules_exhaustive", sbv.0);
    out.set("stageB_families", serde_json::Value::Array(stats.families.lock().unwrap().clone()));

    // ---------------- stage C/D: conformance against real rayon (separate binary, real crate)
    let mut validated = 0u64;
    let mut concurrent = 0u64;
    if replay_only.as_deref().map_or(true, |c| c.starts_with("D|") || c.starts_with("C|")) {
        match std::process::Command::new("/verif/target/main/release/gv").args(["c07d", &tier]).output() {
            Err(e) => out.machinery_errors.push(format!("could not run the real-rayon stage: {e}")),
            Ok(o) => {
                let text = String::from_utf8_lossy(&o.stdout).to_string();
                if !o.status.success() || !text.trim_end().ends_with("END") {
                    out.machinery_errors.push(format!("real-rayon stage failed (status {:?}): {}", o.status.code(), String::from_utf8_lossy(&o.stderr).lines().last().unwrap_or("")));
                }
                let mut refs: BTreeMap<(String, String), u64> = BTreeMap::new();
                for line in text.lines() {
                    let p: Vec<&str> = line.split('\t').collect();
                    let hex = |s: &str| u64::from_str_radix(s, 16).unwrap_or(0);
                    match p[0] {
                        "R" if p.len() == 4 => {
                            refs.insert((p[1].into(), p[2].into()), hex(p[3]));
                            if let Some(m) = r0.get(&(p[1].to_string(), p[2].to_string())) {
                                if *m != hex(p[3]) {
                                    rec.record(Violation::new("model_conformance", p[2], format!("D|{}|{}|ref", p[1], p[2]), format!("input {}: the single-threaded result under real rayon ({}) differs from the single-threaded result under the model ({m:016x})", p[1], p[3])));
                                }
                            }
                        }
                        "D" if p.len() == 6 => {
                            validated += 1;
                            let key = (p[1].to_string(), p[2].to_string());
                            let d = hex(p[5]);
                            if refs.get(&key) != Some(&d) {
                                rec.record(Violation::new("thread_count_independence", p[2], format!("D|{}|{}|k={}|rep={}", p[1], p[2], p[3], p[4]), format!("input {}: result inside a real rayon pool of {} threads (digest {}) differs from the 1-thread result ({:016x})", p[1], p[3], p[5], refs.get(&key).copied().unwrap_or(0))));
                            }
                            if let Some(set) = model_digests.get(&key) {
                                if !set.contains(&d) && refs.get(&key) == Some(&d) {
                                    // real outcome not produced by the model although equal to the reference: impossible unless the model's R0 differs (reported above)
                                }
                            }
                        }
                        "C" if p.len() == 6 => {
                            concurrent += 1;
                            if p[4] != p[5] {
                                rec.record(Violation::new("concurrent_read_only_use", p[2], format!("C|{}|{}|k={}", p[1], p[2], p[3]), format!("input {}: {} run concurrently with {} other read-only calls returned digest {}, sequentially {}", p[1], p[2], p[3], p[4], p[5])));
                            }
                        }
                        _ => {}
                    }
                }
            }
        }
    }

    // ---------------- evidence
    let audit = token_audit();
    out.set("states", schedules + sbv.0);
    out.set("transitions", schedules + sbv.0);
    out.set("schedules", schedules + sbv.0);
    out.set("schedules_with_out_of_order_execution", ooo + sbv.1);
    out.set("distinct_outcomes_max_per_call", distinct_max.max(sbv.2) as u64);
    out.set("traces_validated_against_impl", validated);
    out.set("concurrent_call_results_compared", concurrent);
    out.set("evaluations", schedules + sbv.0 + validated);
    out.set("distinct_nontrivial", ooo + sbv.1);
    out.set("exhaustive", !capped && !stats.capped.load(std::sync::atomic::Ordering::Relaxed));
    out.set("interior_mutability_audit", if audit.is_empty() { serde_json::json!("no unsafe / static mut / thread_local / Cell / RefCell / Mutex / RwLock / Atomic* / Once* / Lazy outside the harness's own feature-guarded seams: work items cannot communicate, item-granularity atomicity holds") } else { serde_json::json!({"found": audit, "note": "the item-granularity atomicity assumption no longer holds for these constructs; the real-rayon stage (traces_validated_against_impl) is the evidence for them"}) });
    out.sample(serde_json::json!({"stage": "A", "input": inputs.first().map(|i| i.name.clone()), "schedule": "choice sequence: at step s run the c-th lowest pending item; [0,0,...] = in order; one deviation = e.g. [0,0,5] (third step runs the 6th lowest pending item)"}));
    out.set("rule", "stage A: graphs with 21-24 nodes (seeded G(n,p) directed/undirected, path, directed cycle, star, two components, 4x6 grid; unweighted and integer-weighted) x the five functions with their option variants; K=4 (parallel path), every schedule of the contract model with at most d deviations from in-order execution (d as reported; a deviation = running a pending item other than the lowest-indexed one, or a non-default split / segment cut / join order). stage B: parallel path forced (hook H6) on every small graph of the listed families: ALL schedules (all N! execution orders and every split / cut). Every schedule's result must be bit-identical (to_bits digests of distances, path lists, centralities) to the single-threaded result. stage C/D (sampling real schedules, validates the model): the same calls under real rayon in caller-installed pools of 1..16 threads and the global pool, and concurrent read-only calls from 2-3 threads. distinct_nontrivial = schedules that ran some item out of index order");
    if replay_only.is_none() {
        for k in ["schedules_with_out_of_order_execution", "stageB_schedules_exhaustive", "traces_validated_against_impl", "concurrent_call_results_compared"] {
            out.require_nonzero(k);
        }
    }
    out.assumptions = vec![
        "items run to completion one at a time (sound while work items cannot communicate: see interior_mutability_audit; Graph: Sync is asserted at compile time); a data race inside two concurrently running items and thread_local effects are only covered by the real-rayon stage".into(),
        "the model implements rayon's documented contract (shims/rayon); a parallel API it does not model makes the build fail (machinery error), never a verdict".into(),
    ];
    if let Some(rc) = replay_only {
        println!("replayed {rc}");
        rec.dump();
        let r = rec.has_any();
        println!("reproduced={r}");
        std::process::exit(if r { 1 } else { 0 });
    }
    let code = finalize("C07", &tier, seed, &rec, out, start);
    std::process::exit(code);
}
