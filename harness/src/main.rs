//! gv — model-checking harness for graphrs (see /verif/DESIGN.md).
mod c01;
mod common;
mod e1;
mod model;

use common::*;
use std::time::Instant;

fn usage() -> ! {
    eprintln!("usage: gv run <ID> --tier quick|thorough | gv replay <ID> <path>");
    std::process::exit(2)
}

fn main() {
    let args: Vec<String> = std::env::args().collect();
    if args.len() < 3 {
        usage();
    }
    install_panic_hook();
    if let Err(e) = hash_ownership_selftest() {
        eprintln!("MACHINERY-ERROR: {e}");
        std::process::exit(2);
    }
    let seed: u64 = std::env::var("VERIF_SEED").ok().and_then(|s| s.parse().ok()).unwrap_or(0);
    match args[1].as_str() {
        "run" => {
            let id = args[2].to_uppercase();
            let mut tier = std::env::var("VERIF_TIER").unwrap_or_else(|_| "quick".into());
            let mut i = 3;
            while i < args.len() {
                if args[i] == "--tier" && i + 1 < args.len() {
                    tier = args[i + 1].clone();
                    i += 1;
                }
                i += 1;
            }
            if tier != "quick" && tier != "thorough" {
                usage();
            }
            let known = match load_known_findings("/verif/known_findings.json") {
                Ok(k) => k,
                Err(e) => {
                    eprintln!("MACHINERY-ERROR: {e}");
                    std::process::exit(2);
                }
            };
            let start = Instant::now();
            let (pid, rec, out): (&'static str, Recorder, RunOutput) = match id.as_str() {
                "C01" => {
                    let rec = Recorder::new("C01", &known);
                    let out = c01::run(&tier, &rec);
                    ("C01", rec, out)
                }
                _ => {
                    eprintln!("unknown property {id}");
                    std::process::exit(2);
                }
            };
            let code = finalize(pid, &tier, seed, &rec, out, start);
            std::process::exit(code);
        }
        "replay" => {
            if args.len() < 4 {
                usage();
            }
            let id = args[2].to_uppercase();
            let body = std::fs::read_to_string(&args[3]).expect("read replay file");
            let v: serde_json::Value = serde_json::from_str(&body).expect("replay json");
            let case = v["case"].as_str().expect("case").to_string();
            println!("replaying {id} case {case}");
            let reproduced = match id.as_str() {
                "C01" => c01::replay(&case),
                _ => usage(),
            };
            println!("reproduced={reproduced}");
            std::process::exit(if reproduced { 1 } else { 0 });
        }
        _ => usage(),
    }
}
