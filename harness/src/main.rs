//! gv — model-checking harness for graphrs (see /verif/DESIGN.md).
mod c01;
mod c02;
mod c03;
mod c04;
mod c07d;
mod c05;
mod c08;
mod c09;
mod c10;
mod c11;
mod c12;
mod c13;
mod c14;
mod c15;
mod c16;
mod c17;
mod c18;
mod c19;
mod c20;
mod common;
mod e1;
mod e2;
mod e3;
mod large;
mod model;
mod oracle;
mod zachary;

use common::*;
use std::time::Instant;

fn usage() -> ! {
    eprintln!("usage: gv run <ID> --tier quick|thorough | gv replay <ID> <path>");
    std::process::exit(2)
}

macro_rules! dispatch {
    ($id:expr, $f:ident, $f06:ident ( $($a:expr),* )) => {
        match $id {
            "C06" => c05::$f06($($a),*),
            "C01" => c01::$f($($a),*),
            "C02" => c02::$f($($a),*),
            "C03" => c03::$f($($a),*),
            "C04" => c04::$f($($a),*),
            "C05" => c05::$f($($a),*),
            "C08" => c08::$f($($a),*),
            "C09" => c09::$f($($a),*),
            "C10" => c10::$f($($a),*),
            "C11" => c11::$f($($a),*),
            "C12" => c12::$f($($a),*),
            "C13" => c13::$f($($a),*),
            "C14" => c14::$f($($a),*),
            "C15" => c15::$f($($a),*),
            "C16" => c16::$f($($a),*),
            "C17" => c17::$f($($a),*),
            "C18" => c18::$f($($a),*),
            "C19" => c19::$f($($a),*),
            "C20" => c20::$f($($a),*),
            _ => { eprintln!("unknown property {}", $id); std::process::exit(2) }
        }
    };
}

fn static_id(id: &str) -> &'static str {
    const IDS: [&str; 20] = ["C01", "C02", "C03", "C04", "C05", "C06", "C07", "C08", "C09", "C10", "C11", "C12", "C13", "C14", "C15", "C16", "C17", "C18", "C19", "C20"];
    IDS.iter().find(|x| **x == id).copied().unwrap_or_else(|| {
        eprintln!("unknown property {id}");
        std::process::exit(2)
    })
}

fn main() {
    let args: Vec<String> = std::env::args().collect();
    if args.len() < 3 {
        usage();
    }
    install_panic_hook();
    if let Err(e) = hash_ownership_selftest() {
        eprintln!("MACHINERY-ERROR: {e}");
        std::process::exit(2);
    }
    let seed: u64 = std::env::var("VERIF_SEED").ok().and_then(|s| s.parse().ok()).unwrap_or(0);
    let known = match load_known_findings("/verif/known_findings.json") {
        Ok(k) => k,
        Err(e) => {
            eprintln!("MACHINERY-ERROR: {e}");
            std::process::exit(2);
        }
    };
    if args[1] == "c10one" {
        std::process::exit(c10::one(&args[2]));
    }
    if args[1] == "c19one" {
        std::process::exit(c19::one(&args[2]));
    }
    if args[1] == "c07d" {
        c07d::main(&args[2]);
        return;
    }
    let id = static_id(&args[2].to_uppercase());
    match args[1].as_str() {
        "run" => {
            let mut tier = std::env::var("VERIF_TIER").unwrap_or_else(|_| "quick".into());
            let mut i = 3;
            while i < args.len() {
                if args[i] == "--tier" && i + 1 < args.len() {
                    tier = args[i + 1].clone();
                    i += 1;
                }
                i += 1;
            }
            if tier != "quick" && tier != "thorough" {
                usage();
            }
            let start = Instant::now();
            let rec = Recorder::new(id, &known);
            let out: RunOutput = dispatch!(id, run, run_c06(&tier, &rec));
            let code = finalize(id, &tier, seed, &rec, out, start);
            std::process::exit(code);
        }
        "replay" => {
            if args.len() < 4 {
                usage();
            }
            let body = std::fs::read_to_string(&args[3]).expect("read replay file");
            let v: serde_json::Value = serde_json::from_str(&body).expect("replay json");
            let case = v["case"].as_str().expect("case").to_string();
            println!("replaying {id} case {case}");
            let rec = Recorder::new(id, &[]);
            let reproduced: bool = dispatch!(id, replay, replay_c06(&case, &rec));
            rec.dump();
            println!("reproduced={reproduced}");
            std::process::exit(if reproduced { 1 } else { 0 });
        }
        _ => usage(),
    }
}
