//! C05 — betweenness centrality equals its definition; C06 — closeness centrality equals its definition.
//! (Both live here: same families, same distance/path oracles.)
use crate::c04::{idx_of, path_families};
use crate::common::*;
use crate::e2::*;
use crate::oracle::*;
use graphrs::algorithms::centrality::{betweenness, closeness};
use std::time::{Duration, Instant};

/// definition-level betweenness in exact rationals (ordered-pair sum)
pub fn betweenness_oracle(sim: &Simple) -> Vec<Q> {
    let n = sim.n;
    let mut b = vec![Q::zero(); n];
    for s in 0..n {
        let best = sim.all_shortest(s);
        for t in 0..n {
            if t == s {
                continue;
            }
            if let Some((_, paths)) = &best[t] {
                let total = paths.len() as i128;
                for v in 0..n {
                    if v == s || v == t {
                        continue;
                    }
                    let through = paths.iter().filter(|p| p[1..p.len() - 1].contains(&v)).count() as i128;
                    if through > 0 {
                        b[v] = b[v].add(Q::new(through, total));
                    }
                }
            }
        }
    }
    b
}

pub fn check_betweenness(b: &Built, rec: &Recorder, c: &mut Counters, weighted_modes: &[bool]) -> u64 {
    let mut calls = 0;
    for &weighted in weighted_modes {
        if weighted && !b.edges.iter().all(|e| e.2 > 0.0) {
            continue;
        }
        let sim = Simple::of(b, weighted);
        let ob = betweenness_oracle(&sim);
        if ob.iter().any(|q| q.1 != 1) {
            c.inc("graphs_with_fractional_dependencies");
        }
        for (normalized, par) in [(false, false), (true, false), (false, true), (true, true)] {
            calls += 1;
            let sub = format!("{}|bc{}:w={}:norm={}", b.case, if par { "-par" } else { "" }, weighted, normalized);
            let mk = |clause: &str, detail: String| {
                Violation::new(clause, "betweenness_centrality", sub.clone(), format!("{}\nweighted={weighted} normalized={normalized}\n{detail}", b.describe()))
                    .with_tags(b.tags())
                    .with_snippet(b.snippet(&format!("    let r = graphrs::algorithms::centrality::betweenness::betweenness_centrality(&g, {weighted}, {normalized}).unwrap();\n    // {}\n", detail.replace('\n', " "))))
            };
            graphrs::verif_hooks::set_parallel_override(if par { Some(true) } else { None });
            let res = guarded(|| betweenness::betweenness_centrality(&b.g, weighted, normalized));
            graphrs::verif_hooks::set_parallel_override(None);
            match res {
                Err(pi) => rec.record(mk("no_panic", pi.msg.clone()).with_panic(pi)),
                Ok(Err(e)) => rec.record(mk("unexpected_error", format!("Err({:?})", e.kind))),
                Ok(Ok(m)) => {
                    if m.len() != b.n || !b.names.iter().all(|x| m.contains_key(x)) {
                        rec.record(mk("one_entry_per_node", format!("result has keys {:?}", m.keys().collect::<Vec<_>>())));
                        continue;
                    }
                    let n = b.n as f64;
                    for (k, got) in &m {
                        let v = idx_of(b, k);
                        let mut exp = ob[v].f();
                        if normalized {
                            if b.n > 2 {
                                exp /= (n - 1.0) * (n - 2.0);
                            }
                        } else if !b.kind.directed {
                            exp *= 0.5;
                        }
                        if !close(*got, exp, 1e-9) {
                            rec.record(mk("value", format!("betweenness[{k}] = {got}, definition gives {exp} (ordered-pair sum {}/{})", ob[v].0, ob[v].1)));
                        }
                    }
                }
            }
        }
    }
    calls
}

pub fn closeness_oracle(sim: &Simple, wf: bool) -> Vec<f64> {
    let n = sim.n;
    let d = sim.dist();
    (0..n)
        .map(|u| {
            let r: Vec<f64> = (0..n).filter(|&v| v != u).filter_map(|v| d[v][u]).collect();
            if r.is_empty() {
                return 0.0;
            }
            let tot: f64 = r.iter().sum();
            let k = r.len() as f64;
            let mut c = k / tot;
            if wf {
                c *= k / (n as f64 - 1.0);
            }
            c
        })
        .collect()
}

pub fn check_closeness(b: &Built, rec: &Recorder, c: &mut Counters, weighted_modes: &[bool]) -> u64 {
    let mut calls = 0;
    for &weighted in weighted_modes {
        if weighted && !b.edges.iter().all(|e| e.2 > 0.0) {
            continue;
        }
        let sim = Simple::of(b, weighted);
        if b.kind.directed {
            let d = sim.dist();
            if (0..b.n).any(|u| (0..b.n).any(|v| d[u][v] != d[v][u])) {
                c.inc("digraphs_with_asymmetric_distances");
            }
        }
        for (wf, par) in [(false, false), (true, false), (false, true), (true, true)] {
            calls += 1;
            let exp = closeness_oracle(&sim, wf);
            let sub = format!("{}|cc{}:w={}:wf={}", b.case, if par { "-par" } else { "" }, weighted, wf);
            let mk = |clause: &str, detail: String| {
                Violation::new(clause, "closeness_centrality", sub.clone(), format!("{}\nweighted={weighted} wf_improved={wf}\n{detail}", b.describe()))
                    .with_tags(b.tags())
                    .with_snippet(b.snippet(&format!("    let r = graphrs::algorithms::centrality::closeness::closeness_centrality(&g, {weighted}, {wf}).unwrap();\n    // {}\n", detail.replace('\n', " "))))
            };
            graphrs::verif_hooks::set_parallel_override(if par { Some(true) } else { None });
            let res = guarded(|| closeness::closeness_centrality(&b.g, weighted, wf));
            graphrs::verif_hooks::set_parallel_override(None);
            match res {
                Err(pi) => rec.record(mk("no_panic", pi.msg.clone()).with_panic(pi)),
                Ok(Err(e)) => rec.record(mk("unexpected_error", format!("Err({:?})", e.kind))),
                Ok(Ok(m)) => {
                    if m.len() != b.n || !b.names.iter().all(|x| m.contains_key(x)) {
                        rec.record(mk("one_entry_per_node", format!("result has keys {:?}", m.keys().collect::<Vec<_>>())));
                        continue;
                    }
                    for (k, got) in &m {
                        let v = idx_of(b, k);
                        if !close(*got, exp[v], 1e-9) {
                            rec.record(mk("value", format!("closeness[{k}] = {got}, definition gives {}", exp[v])));
                        }
                    }
                }
            }
        }
    }
    calls
}

fn modes(f: &Family) -> Vec<bool> {
    if f.walpha == "u" {
        vec![false]
    } else if f.n <= 3 {
        vec![true, false]
    } else {
        vec![true]
    }
}

fn run_generic(tier: &str, which: &'static str, rec: &Recorder) -> RunOutput {
    let start = Instant::now();
    let mut out = RunOutput::new("model_checking");
    let deadline = start + Duration::from_secs_f64(wall_cap_s(tier));
    let stats = E2Stats::new();
    let seed = std::env::var("VERIF_SEED").ok().and_then(|s| s.parse().ok()).unwrap_or(0);
    let mut fams = path_families(tier);
    if tier == "quick" {
        fams.push(fam(crate::c04::DSL, 4, "u", &ORD_ONE)); // every self-loop placement on every 4-node digraph (thorough has it via path_families)
    }
    // positive weights only; C06: values around 1e-19 (whuge) are below the absolute part of the comparison tolerance
    let fams: Vec<Family> = fams.into_iter().filter(|f| !f.walpha.starts_with("w0") && !(which == "C06" && f.walpha == "whuge")).collect();
    for_each_family(&fams, |f| {
        let m = modes(f);
        for_each_graph(f, seed, deadline, &stats, |b, c| if which == "C05" { check_betweenness(b, rec, c, &m) } else { check_closeness(b, rec, c, &m) });
    });
    {
        let mut c = Counters::default();
        if which == "C05" {
            crate::large::c05_large(tier, rec, &mut c);
        } else {
            crate::large::c06_large(tier, rec, &mut c);
        }
        stats.counters.lock().unwrap().merge(&c);
    }
    fill_e2_coverage(&mut out, &stats);
    out.set("traces_validated_against_impl", out.get("transitions"));
    out
}

pub fn run(tier: &str, rec: &Recorder) -> RunOutput {
    let mut out = run_generic(tier, "C05", rec);
    out.set("distinct_nontrivial", out.get("graphs_with_fractional_dependencies"));
    out.set("rule", "every labelled graph of each family (all kinds, n<=3 complete; larger n for the single-edge kinds) x weighted x normalized; oracle = exact rational sum over ordered pairs of (#shortest simple paths through v)/(#shortest simple paths), from exhaustive path enumeration. distinct_nontrivial = graphs on which some node has a fractional pair dependency (path-count ties)");
    out.require_nonzero("graphs_with_fractional_dependencies");
    out.assumptions = vec!["positive weights {1,2} ({1,2,3}); sizes as listed; tolerance 1e-9 relative".into()];
    out
}

pub fn run_c06(tier: &str, rec: &Recorder) -> RunOutput {
    let mut out = run_generic(tier, "C06", rec);
    out.set("distinct_nontrivial", out.get("digraphs_with_asymmetric_distances"));
    out.set("rule", "every labelled graph of each family x weighted x wf_improved; oracle = (r-1)/sum of Floyd-Warshall distances INTO the node over the nodes that reach it, x (r-1)/(n-1) with WF scaling, 0 if none. distinct_nontrivial = digraphs whose distance matrix is asymmetric (the direction clause is observable)");
    out.require_nonzero("digraphs_with_asymmetric_distances");
    out.assumptions = vec!["positive weights {1,2} ({1,2,3}); sizes as listed; tolerance 1e-9 relative".into()];
    out
}

fn replay_generic(case: &str, which: &'static str, rec: &Recorder) -> bool {
    if case.starts_with("L:") {
        let mut c = Counters::default();
        if which == "C05" {
            crate::large::c05_large("thorough", rec, &mut c);
        } else {
            crate::large::c06_large("thorough", rec, &mut c);
        }
        return rec.has_any();
    }
    let (f, _, _, _, _) = match parse_case(case) {
        Some(x) => x,
        None => return false,
    };
    let seed = std::env::var("VERIF_SEED").ok().and_then(|s| s.parse().ok()).unwrap_or(0);
    let mut lists: Vec<Vec<(u8, u8)>> = vec![];
    for tier in ["quick", "thorough"] {
        for pf in path_families(tier) {
            if pf.kind == f.kind && pf.n == f.n && pf.walpha == f.walpha && !lists.contains(&pf.orders) {
                lists.push(pf.orders.clone());
            }
        }
    }
    let m = modes(&f);
    let dummy = Recorder::new("C05", &[]);
    for orders in lists {
        for round in 0..2 {
            replay_chunk(case, &orders, 0, seed, |b, target| {
                let mut c = Counters::default();
                if target {
                    println!("round {round}: {}", b.describe());
                }
                let r = if target { rec } else { &dummy };
                if which == "C05" {
                    check_betweenness(b, r, &mut c, &m);
                } else {
                    check_closeness(b, r, &mut c, &m);
                }
            });
        }
        if rec.has_any() {
            return true;
        }
    }
    rec.has_any()
}

pub fn replay(case: &str, rec: &Recorder) -> bool {
    replay_generic(case, "C05", rec)
}
pub fn replay_c06(case: &str, rec: &Recorder) -> bool {
    replay_generic(case, "C06", rec)
}
