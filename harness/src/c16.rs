//! C16 — generators produce the graph family they name.
//! E6: explicit-state exploration of the skipping walk's cursor chain under an injected random
//! source, every model transition validated against the real generator.
use crate::common::*;
use crate::zachary::ZACHARY;
use graphrs::generators::{classic, random, social};
use graphrs::Graph;
use rand_core::RngCore;
use std::collections::BTreeSet;
use std::time::{Duration, Instant};

// ------------------------------------------------------------------ scripted random source

struct ScriptRng {
    vals: Vec<u64>,
    i: usize,
    tail: u64,
    draws: std::rc::Rc<std::cell::Cell<usize>>,
}
impl RngCore for ScriptRng {
    fn next_u32(&mut self) -> u32 {
        (self.next_u64() >> 32) as u32
    }
    fn next_u64(&mut self) -> u64 {
        let v = if self.i < self.vals.len() { self.vals[self.i] } else { self.tail };
        self.i += 1;
        self.draws.set(self.draws.get() + 1);
        v
    }
    fn fill_bytes(&mut self, dest: &mut [u8]) {
        for ch in dest.chunks_mut(8) {
            let b = self.next_u64().to_le_bytes();
            ch.copy_from_slice(&b[..ch.len()]);
        }
    }
    fn try_fill_bytes(&mut self, dest: &mut [u8]) -> Result<(), rand_core::Error> {
        self.fill_bytes(dest);
        Ok(())
    }
}

const TWO53: f64 = 9007199254740992.0;
/// the u64 whose f64 image (rand's Standard: (v >> 11) * 2^-53) is r
fn u64_for(r: f64) -> u64 {
    let m = (r * TWO53) as u64;
    m.min((1u64 << 53) - 1) << 11
}
fn r_of(v: u64) -> f64 {
    (v >> 11) as f64 / TWO53
}
/// the model's skip for a draw r at edge probability p: floor(ln(1-r)/ln(1-p)), saturating at i32::MAX
fn model_skip(r: f64, p: f64) -> i64 {
    let lp = (-p).ln_1p();
    let lr = (-r).ln_1p();
    if lr == 0.0 {
        return 0;
    }
    let q = lr / lp;
    if q >= i32::MAX as f64 {
        i32::MAX as i64
    } else {
        q as i64
    }
}
/// a draw that makes the generator skip exactly k cells (None if no 53-bit r does)
fn draw_for_skip(k: i64, p: f64) -> Option<u64> {
    let lp = (-p).ln_1p();
    let u = ((k as f64 + 0.5) * lp).exp();
    let v = u64_for(1.0 - u);
    if model_skip(r_of(v), p) == k {
        Some(v)
    } else {
        None
    }
}
fn max_draw() -> u64 {
    ((1u64 << 53) - 1) << 11
}

// ------------------------------------------------------------------ model of the published scheme

/// linear-cell model: directed = n x n grid in row-major order, a landing on the diagonal moves one
/// cell on; undirected = strict lower triangle row by row. Returns the emitted pairs for a skip trace
/// (after the trace, maximal skips until the walk ends).
fn model_run(n: i64, directed: bool, skips: &[i64], tail_skip: i64) -> Vec<(i32, i32)> {
    let total: i64 = if directed { n * n } else { n * (n - 1) / 2 };
    let mut out = vec![];
    let mut pos: i64 = -1;
    let mut i = 0;
    loop {
        // the generator draws while its cursor is inside the grid
        if directed {
            if n == 0 || pos >= total {
                break;
            }
        } else if n <= 1 || pos >= total {
            break;
        }
        let k = if i < skips.len() { skips[i] } else { tail_skip };
        i += 1;
        pos = pos.saturating_add(1).saturating_add(k);
        if directed {
            if pos < total && pos / n == pos % n {
                pos += 1;
            }
            if pos < total {
                out.push(((pos / n) as i32, (pos % n) as i32));
            }
        } else if pos < total {
            // row v (1-based) holds v cells
            let mut v = 1i64;
            let mut start = 0i64;
            while start + v <= pos {
                start += v;
                v += 1;
            }
            out.push((v as i32, (pos - start) as i32));
        }
        if pos >= total {
            break;
        }
        if i > 100_000 {
            break;
        }
    }
    out
}

fn pairs_possible(n: i64, directed: bool) -> BTreeSet<(i32, i32)> {
    let mut s = BTreeSet::new();
    for v in 0..n {
        for w in 0..n {
            if v != w && (directed || w < v) {
                s.insert((v as i32, w as i32));
            }
        }
    }
    s
}

/// exact expected number of edges of the model chain for P(skip = k) = p (1-p)^k
fn expected_edges(n: i64, directed: bool, p: f64) -> f64 {
    let total = if directed { n * n } else { n * (n - 1) / 2 } as usize;
    if total == 0 {
        return 0.0;
    }
    // land[c] = probability that some draw lands on cell c (before the diagonal shift)
    // a landing on a diagonal cell is transferred to the next cell
    let mut land = vec![0.0f64; total + 2];
    // start: pos = -1, next landing raw cell = k
    let q = 1.0 - p;
    let mut start_from = vec![0.0f64; total + 2]; // probability mass of "cursor at cell c, about to draw" keyed by next raw base c (= pos+1)
    start_from[0] = 1.0;
    let mut e = 0.0;
    for base in 0..total {
        let mass = start_from[base];
        if mass == 0.0 {
            continue;
        }
        let mut pk = p;
        for raw in base..total {
            // landing raw cell `raw` with probability mass * p q^(raw-base)
            let pr = mass * pk;
            pk *= q;
            let mut c = raw;
            if directed && c / n as usize == c % n as usize {
                c += 1;
            }
            if c < total {
                land[c] += pr;
                e += pr;
                start_from[c + 1] += pr;
            }
        }
    }
    let _ = land;
    e
}

// ------------------------------------------------------------------ running the real generator

struct RealRun {
    ok: bool,
    err: String,
    nodes: Vec<i32>,
    edges: Vec<(i32, i32)>,
    draws: usize,
}

fn real_run(n: i32, p: f64, directed: bool, draws: Vec<u64>, tail: u64) -> Result<RealRun, PanicInfo> {
    let counter = std::rc::Rc::new(std::cell::Cell::new(0usize));
    let c2 = counter.clone();
    let r = guarded(move || random::fast_gnp_random_graph_with_rng(n, p, directed, Box::new(ScriptRng { vals: draws, i: 0, tail, draws: c2 })))?;
    Ok(match r {
        Err(e) => RealRun { ok: false, err: format!("{:?}: {}", e.kind, e.message), nodes: vec![], edges: vec![], draws: counter.get() },
        Ok(g) => RealRun { ok: true, err: String::new(), nodes: g.get_all_nodes().iter().map(|x| x.name).collect(), edges: edges_of(&g, directed), draws: counter.get() },
    })
}

fn edges_of(g: &Graph<i32, ()>, directed: bool) -> Vec<(i32, i32)> {
    let mut v: Vec<(i32, i32)> = g.get_all_edges().iter().map(|e| if directed || e.u > e.v { (e.u, e.v) } else { (e.v, e.u) }).collect();
    v.sort();
    v
}

fn structural(n: i32, directed: bool, nodes: &[i32], edges: &[(i32, i32)]) -> Option<String> {
    if nodes != (0..n).collect::<Vec<i32>>().as_slice() {
        return Some(format!("nodes are {:?}, expected exactly 0..{}", nodes, n));
    }
    if edges.iter().any(|e| e.0 == e.1) {
        return Some(format!("self-loop in {:?}", edges));
    }
    let set: BTreeSet<(i32, i32)> = edges.iter().cloned().collect();
    if set.len() != edges.len() {
        return Some(format!("repeated pair in {:?}", edges));
    }
    if edges.iter().any(|e| e.0 < 0 || e.1 < 0 || e.0 >= n || e.1 >= n) {
        return Some(format!("edge outside 0..{n}: {:?}", edges));
    }
    let _ = directed;
    None
}

// ------------------------------------------------------------------ calibration of the draw -> skip map

/// How the generator turns one u64 draw into a skip, MEASURED on the real code (no assumption about
/// rand's u64 -> f64 mapping): `bounds[k]` is the smallest draw (in the generator's own monotone
/// direction) whose skip is >= k.
pub struct Calib {
    pub p: f64,
    pub increasing: bool,
    pub tail: u64,
    /// skip produced by the tail draw (i64::MAX if it is at least CAL_CELLS)
    pub tail_skip: i64,
    pub bounds: Vec<u64>,
}

const CAL_N: i32 = 64;
const CAL_CELLS: i64 = 64 * 63 / 2;

/// first landing cell (= skip of the first draw) of the undirected generator with n = CAL_N
fn first_skip(p: f64, v: u64, tail: u64) -> Result<i64, String> {
    let rr = real_run(CAL_N, p, false, vec![v], tail).map_err(|pi| format!("panicked: {}", pi.msg))?;
    if !rr.ok {
        return Err(format!("returned Err: {}", rr.err));
    }
    // linear index of (v, w), w < v, in the row-by-row lower triangle
    Ok(rr.edges.iter().map(|&(a, b)| (a as i64) * (a as i64 - 1) / 2 + b as i64).min().unwrap_or(i64::MAX))
}

pub fn calibrate(p: f64, kmax: i64) -> Result<Calib, String> {
    // the tail draw is the extreme that skips furthest
    let count = |t: u64| -> Result<usize, String> {
        let rr = real_run(CAL_N, p, false, vec![], t).map_err(|pi| format!("panicked: {}", pi.msg))?;
        if !rr.ok {
            return Err(format!("returned Err: {}", rr.err));
        }
        Ok(rr.edges.len())
    };
    let (c0, c1) = (count(0)?, count(u64::MAX)?);
    if c0 == c1 {
        return Err(format!("draw 0 and draw u64::MAX give the same number of edges ({c0}): the skip does not depend on the draw"));
    }
    let increasing = c1 < c0;
    let tail = if increasing { u64::MAX } else { 0 };
    // position along the generator's monotone direction: x in 0..=u64::MAX, draw = x or !x
    let draw = |x: u64| if increasing { x } else { !x };
    let tail_skip = {
        // skip of the tail draw: first landing when every draw is the tail
        let rr = real_run(CAL_N, p, false, vec![], tail).map_err(|pi| pi.msg)?;
        rr.edges.iter().map(|&(a, b)| (a as i64) * (a as i64 - 1) / 2 + b as i64).min().unwrap_or(i64::MAX)
    };
    let kmax = kmax.min(CAL_CELLS - 1);
    let mut bounds: Vec<u64> = vec![0];
    for k in 1..=kmax + 1 {
        // smallest x with skip(draw(x)) >= k
        if first_skip(p, draw(u64::MAX), tail)? < k {
            break; // no draw skips that far
        }
        let (mut lo, mut hi) = (*bounds.last().unwrap(), u64::MAX); // skip(lo) may be < k, skip(hi) >= k
        if first_skip(p, draw(lo), tail)? >= k {
            bounds.push(lo);
            continue;
        }
        while hi - lo > 1 {
            let mid = lo + (hi - lo) / 2;
            if first_skip(p, draw(mid), tail)? >= k {
                hi = mid;
            } else {
                lo = mid;
            }
        }
        bounds.push(hi);
    }
    Ok(Calib { p, increasing, tail, tail_skip, bounds })
}

impl Calib {
    /// largest k for which a draw with skip exactly k is known
    pub fn kmax(&self) -> i64 {
        self.bounds.len() as i64 - 2
    }
    /// a draw in the middle of the skip-k interval
    pub fn draw_for(&self, k: i64) -> Option<u64> {
        if k < 0 || k > self.kmax() {
            return None;
        }
        let (a, b) = (self.bounds[k as usize], self.bounds[k as usize + 1]);
        let x = a + (b - a) / 2;
        Some(if self.increasing { x } else { !x })
    }
    /// measured probability of skip k under a uniform u64 draw
    pub fn prob(&self, k: i64) -> f64 {
        let (a, b) = (self.bounds[k as usize], self.bounds[k as usize + 1]);
        (b - a) as f64 / 18446744073709551616.0
    }
}

fn gnp_chain(tier: &str, rec: &Recorder, out: &mut RunOutput, deadline: Instant) {
    let nmax: i64 = if tier == "quick" { 7 } else { 12 };
    let n3max: i64 = if tier == "quick" { 4 } else { 5 };
    let ps = [0.01, 0.1, 0.5, 0.9, 0.99];
    // measure the generator's own draw -> skip map and check that it is the geometric law
    let mut calibs: Vec<Calib> = vec![];
    for &p in &ps {
        match calibrate(p, nmax * nmax + 2) {
            Err(e) => {
                rec.record(Violation::new("skip_law", "fast_gnp_random_graph", format!("cal:{p}"), format!("p={p}: the undirected generator (n={CAL_N}) does not behave as a skipping walk driven by one draw per skip: {e}")));
                return;
            }
            Ok(c) => {
                for k in 0..=c.kmax() {
                    let want = p * (1.0 - p).powi(k as i32);
                    let got = c.prob(k);
                    if (got - want).abs() > 8.0 / TWO53 + 1e-9 * want {
                        rec.record(Violation::new("skip_law", "fast_gnp_random_graph", format!("cal:{p}:{k}"), format!("p={p}: a uniform draw skips exactly {k} cells with probability {got:e} (measured on the generator by bisection over the u64 draw), the geometric law p(1-p)^k gives {want:e}")));
                        break;
                    }
                }
                out.add("calibrated_skip_intervals", (c.kmax() + 1) as u64);
                calibs.push(c);
            }
        }
    }
    let calibs = &calibs;
    let jobs: Vec<(bool, i64)> = [false, true].into_iter().flat_map(|d| (0..=nmax).map(move |n| (d, n))).collect();
    let totals = std::sync::Mutex::new((0u64, 0u64, 0u64, Vec::<serde_json::Value>::new())); // states, transitions, validated, samples
    let capped = std::sync::atomic::AtomicBool::new(false);
    par_for(jobs.len(), |ji| {
        let (directed, n) = jobs[ji];
        let lcells: i64 = if directed { n * n } else { n * (n - 1) / 2 };
        let possible = pairs_possible(n, directed);
        let mut seen_pairs: BTreeSet<(i32, i32)> = BTreeSet::new();
        let (mut st, mut tr, mut va) = (0u64, 0u64, 0u64);
        let mut samples = vec![];
        for (pi, &p) in ps.iter().enumerate() {
            let cal = &calibs[pi];
            // the tail draw's skip; "infinite" when it is beyond every grid explored here
            let kmax_p = if cal.tail_skip == i64::MAX { i32::MAX as i64 } else { cal.tail_skip };
            let klim = (lcells + 1).min(cal.kmax()).min(kmax_p);
            let mut traces: Vec<Vec<i64>> = vec![vec![]];
            for k1 in 0..=klim {
                traces.push(vec![k1]);
                for k2 in 0..=klim {
                    traces.push(vec![k1, k2]);
                    if n <= n3max && pi == 0 {
                        for k3 in 0..=klim {
                            traces.push(vec![k1, k2, k3]);
                        }
                    }
                }
                traces.push(vec![k1, kmax_p]);
            }
            st += (klim + 2) as u64;
            for t in traces {
                if Instant::now() > deadline {
                    capped.store(true, std::sync::atomic::Ordering::Relaxed);
                    break;
                }
                let draws: Option<Vec<u64>> = t.iter().map(|&k| if k == kmax_p { Some(cal.tail) } else { cal.draw_for(k) }).collect();
                let draws = match draws {
                    Some(d) => d,
                    None => continue,
                };
                tr += 1;
                let exp = model_run(n, directed, &t, kmax_p);
                let case = format!("r:{}:{}:{}:{}", directed as u8, n, p, t.iter().map(|x| x.to_string()).collect::<Vec<_>>().join(","));
                let mk = |clause: &str, detail: String| {
                    Violation::new(clause, "fast_gnp_random_graph", case.clone(), format!("n={n} p={p} directed={directed} dictated skips {t:?} (then maximal skips)\n{detail}")).with_tags(vec![if directed { "directed".into() } else { "undirected".into() }]).with_snippet(format!(
                        "// with an injected RngCore returning {:?} and then {}: graphrs::generators::random::fast_gnp_random_graph_with_rng({n}, {p}, {directed}, rng)\n",
                        draws, cal.tail
                    ))
                };
                match real_run(n as i32, p, directed, draws.clone(), cal.tail) {
                    Err(pi) => rec.record(mk(if pi.is_overflow() { "no_overflow" } else { "no_panic" }, pi.msg.clone()).with_panic(pi)),
                    Ok(rr) => {
                        va += 1;
                        if !rr.ok {
                            rec.record(mk("succeeds", format!("returned Err: {}", rr.err)));
                            continue;
                        }
                        if let Some(why) = structural(n as i32, directed, &rr.nodes, &rr.edges) {
                            rec.record(mk("structure", why));
                            continue;
                        }
                        let mut e2 = exp.clone();
                        e2.sort();
                        if rr.edges != e2 {
                            rec.record(mk("chain_conformance", format!("generator emitted {:?}, the skipping-walk model predicts {:?}", rr.edges, e2)));
                        }
                        for e in &rr.edges {
                            seen_pairs.insert(*e);
                        }
                        if samples.len() < 1 && t.len() == 2 && !exp.is_empty() {
                            samples.push(serde_json::json!({"case": case, "emitted": format!("{:?}", rr.edges)}));
                        }
                    }
                }
            }
            // exact mean of the (validated) chain
            if n >= 2 {
                let e = expected_edges(n, directed, p);
                let lpairs = possible.len() as f64;
                if (e - p * lpairs).abs() > p * lpairs / (n as f64 - 1.0) + 1e-9 {
                    rec.record(Violation::new("expected_edges", "fast_gnp_random_graph", format!("m:{}:{}:{}", directed as u8, n, p), format!("n={n} p={p} directed={directed}: exact expected number of edges of the walk = {e}, p x pairs = {}", p * lpairs)));
                }
            }
        }
        if !capped.load(std::sync::atomic::Ordering::Relaxed) && seen_pairs != possible {
            let missing: Vec<_> = possible.difference(&seen_pairs).collect();
            rec.record(Violation::new("every_pair_can_occur", "fast_gnp_random_graph", format!("cov:{}:{}", directed as u8, n), format!("n={n} directed={directed}: pairs never emitted by any explored trace: {missing:?}")).with_tags(vec![if directed { "directed".into() } else { "undirected".into() }]));
        }
        let mut t = totals.lock().unwrap();
        t.0 += st;
        t.1 += tr;
        t.2 += va;
        if t.3.len() < 4 {
            t.3.extend(samples);
        }
    });
    let t = totals.into_inner().unwrap();
    out.set("states", t.0);
    out.set("transitions", t.1);
    out.set("traces_validated_against_impl", t.2);
    for s in t.3 {
        out.sample(s);
    }
    if capped.load(std::sync::atomic::Ordering::Relaxed) {
        out.set("exhaustive", false);
        out.set("cap_note", "wall cap reached during the chain exploration");
    } else {
        out.set("exhaustive", true);
    }
    out.set("chain_n_max", nmax as u64);
}

fn deterministic_generators(rec: &Recorder, out: &mut RunOutput) {
    let mut calls = 0u64;
    for directed in [false, true] {
        for n in (0..=40).chain([100, 300]) {
            calls += 1;
            let case = format!("k:{}:{}", directed as u8, n);
            match guarded(|| classic::complete_graph(n, directed)) {
                Err(pi) => rec.record(Violation::new("no_panic", "complete_graph", case, pi.msg.clone()).with_panic(pi)),
                Ok(g) => {
                    let mut nodes: Vec<i32> = g.get_all_nodes().iter().map(|x| x.name).collect();
                    nodes.sort();
                    let exp_nodes: Vec<i32> = (0..n).collect();
                    if nodes != exp_nodes {
                        let mut t = vec![];
                        if n == 1 {
                            t.push("n_equals_1".to_string());
                        }
                        rec.record(Violation::new("complete_nodes", "complete_graph", case.clone(), format!("complete_graph({n}, {directed}) has nodes {:?}, expected 0..{n}", if nodes.len() > 12 { format!("({} nodes)", nodes.len()) } else { format!("{nodes:?}") })).with_tags(t));
                    }
                    let got = edges_of(&g, directed);
                    let exp: Vec<(i32, i32)> = pairs_possible(n as i64, directed).into_iter().collect();
                    if got != exp || g.specs.directed != directed {
                        rec.record(Violation::new("complete_edges", "complete_graph", case.clone(), format!("complete_graph({n}, {directed}): {} edges, expected {} (every pair once)", got.len(), exp.len())));
                    }
                }
            }
        }
    }
    calls += 1;
    match guarded(social::karate_club_graph) {
        Err(pi) => rec.record(Violation::new("no_panic", "karate_club_graph", "karate".into(), pi.msg.clone()).with_panic(pi)),
        Ok(g) => {
            let mut nodes: Vec<i32> = g.get_all_nodes().iter().map(|x| x.name).collect();
            nodes.sort();
            let mut got: Vec<(i32, i32)> = g.get_all_edges().iter().map(|e| (e.u.min(e.v), e.u.max(e.v))).collect();
            got.sort();
            let mut exp = ZACHARY.to_vec();
            exp.sort();
            if nodes != (0..34).collect::<Vec<i32>>() || got != exp || g.specs.directed {
                rec.record(Violation::new("karate", "karate_club_graph", "karate".into(), format!("{} nodes, {} edges, directed={}; expected the 34-node, 78-edge undirected Zachary graph", nodes.len(), got.len(), g.specs.directed)));
            }
        }
    }
    // argument validation
    for p in [0.0, 1.0, -0.5, 1.5, -0.0, 1.0000000000000002, f64::INFINITY, f64::NEG_INFINITY] {
        for directed in [false, true] {
            for n in [0, 1, 2, 3, 5, 20, 300] {
                for seed in [Some(1), None] {
                    calls += 1;
                    match guarded(|| random::fast_gnp_random_graph(n, p, directed, seed)) {
                        Ok(Err(e)) if format!("{:?}", e.kind) == "InvalidArgument" => {}
                        Ok(r) => rec.record(Violation::new("invalid_argument", "fast_gnp_random_graph", format!("arg:{n}:{p}:{directed}"), format!("fast_gnp_random_graph({n}, {p}, {directed}, {seed:?}): {:?}, expected Err(InvalidArgument)", r.map(|_| "Ok").map_err(|e| e.kind)))),
                        Err(pi) => rec.record(Violation::new("no_panic", "fast_gnp_random_graph", format!("arg:{n}:{p}:{directed}"), pi.msg.clone()).with_panic(pi)),
                    }
                }
            }
        }
    }
    // unseeded calls are fresh draws: consecutive draws of G(24, 0.5) on one thread cannot coincide
    // (276 / 552 independent fair pairs: probability 2^-276 or less per comparison)
    for directed in [false, true] {
        let draws: Vec<String> = (0..4)
            .map(|_| match guarded(|| random::fast_gnp_random_graph(24, 0.5, directed, None)) {
                Ok(Ok(g)) => {
                    let mut es: Vec<(i32, i32)> = g.get_all_edges().iter().map(|e| (e.u, e.v)).collect();
                    es.sort();
                    format!("{es:?}")
                }
                Ok(Err(e)) => format!("Err({:?})", e.kind),
                Err(pi) => format!("panic {}", pi.msg),
            })
            .collect();
        calls += 4;
        if draws.windows(2).any(|w| w[0] == w[1]) {
            rec.record(Violation::new("unseeded_draws_differ", "fast_gnp_random_graph", format!("arg:unseeded:{directed}"), format!("consecutive calls fast_gnp_random_graph(24, 0.5, {directed}, None) on one thread returned the same graph: every pair absent from the first draw can then never occur")));
        }
    }
    // ... and the other side of the same boundary: every p strictly inside (0,1) is valid through the PUBLIC entry
    // point, however close to an end (the dictated-draw runs above use the hook entry, which has no validation)
    let below_one = f64::from_bits(1.0f64.to_bits() - 1);
    for p in [5e-324, f64::MIN_POSITIVE, 1e-300, 1e-20, 1e-17, 1e-16, f64::EPSILON / 2.0, f64::EPSILON, 1e-12, 1e-3, 0.5, 1.0 - 1e-12, 1.0 - f64::EPSILON, 1.0 - f64::EPSILON / 2.0, below_one] {
        for directed in [false, true] {
            for n in [0, 1, 2, 3, 5, 20] {
                for seed in [Some(0), Some(7), None] {
                    calls += 1;
                    let case = format!("valid:{n}:{p:e}:{directed}");
                    match guarded(|| random::fast_gnp_random_graph(n, p, directed, seed)) {
                        Ok(Ok(g)) => {
                            let mut nodes: Vec<i32> = g.get_all_nodes().iter().map(|x| x.name).collect();
                            nodes.sort();
                            if nodes != (0..n).collect::<Vec<i32>>() {
                                rec.record(Violation::new("structure", "fast_gnp_random_graph", case, format!("fast_gnp_random_graph({n}, {p:e}, {directed}, {seed:?}) has nodes {nodes:?}")));
                            }
                        }
                        Ok(Err(e)) => rec.record(Violation::new("succeeds", "fast_gnp_random_graph", case, format!("fast_gnp_random_graph({n}, {p:e}, {directed}, {seed:?}) returned Err({:?}) for a probability strictly between 0 and 1", e.kind))),
                        Err(pi) => rec.record(Violation::new(if pi.is_overflow() { "no_overflow" } else { "no_panic" }, "fast_gnp_random_graph", case, pi.msg.clone()).with_panic(pi)),
                    }
                }
            }
        }
    }
    out.set("deterministic_generator_calls", calls);
}

/// extreme probabilities with dictated draws: r in {0, small, 0.5, max}
fn gnp_extreme_p(rec: &Recorder, out: &mut RunOutput) {
    let mut calls = 0u64;
    for &p in &[1e-300, 1e-20, 1e-12, 1e-9, 1.0 - 1e-12, 0.9999999999999999] {
        for directed in [false, true] {
            for n in [0i32, 1, 2, 3, 5] {
                let rs = [0.0, 1e-15, 1e-9, 0.5, 1.0 - 1.0 / TWO53];
                for &r1 in &rs {
                    for &r2 in &rs {
                        calls += 1;
                        let draws = vec![u64_for(r1), u64_for(r2)];
                        let tail = max_draw();
                        let case = format!("x:{}:{}:{:e}:{:e},{:e}", directed as u8, n, p, r1, r2);
                        let mk = |clause: &str, detail: String| Violation::new(clause, "fast_gnp_random_graph", case.clone(), format!("n={n} p={p:e} directed={directed} draws r1={r1:e} r2={r2:e} (then r = 1-2^-53)\n{detail}")).with_tags(vec![if p < 1e-15 { "p_below_f64_epsilon".into() } else { "tiny_or_huge_p".into() }]);
                        match real_run(n, p, directed, draws, tail) {
                            Err(pi) => rec.record(mk(if pi.is_overflow() { "no_overflow" } else { "no_panic" }, pi.msg.clone()).with_panic(pi)),
                            Ok(rr) => {
                                if !rr.ok {
                                    rec.record(mk("succeeds", format!("returned Err: {}", rr.err)));
                                } else if let Some(why) = structural(n, directed, &rr.nodes, &rr.edges) {
                                    rec.record(mk("structure", why));
                                }
                            }
                        }
                    }
                }
            }
        }
    }
    // zero-skip traces on graphs with ~10^4 and ~4*10^4 pairs: every dictated draw is r = 0.5 at p = 0.9, so every skip is
    // floor(ln 0.5 / ln 0.1) = 0 and the walk must emit EVERY pair — the one trace whose outcome is known at any size
    // (batched insertion, chunked buffers and cursor arithmetic past small n are all exercised by it)
    for directed in [true, false] {
        for n in [100i32, 140, 203] {
            calls += 1;
            let case = format!("x:{}:{}:{:e}:{:e},{:e}", directed as u8, n, 0.9, 0.5, 0.5);
            let mk = |clause: &str, detail: String| Violation::new(clause, "fast_gnp_random_graph", case.clone(), format!("n={n} p=0.9 directed={directed}, every draw r=0.5 (skip 0 each time: every pair is due)\n{detail}")).with_tags(vec!["gnp_zero_skip_large".into()]);
            match real_run(n, 0.9, directed, vec![], u64_for(0.5)) {
                Err(pi) => rec.record(mk(if pi.is_overflow() { "no_overflow" } else { "no_panic" }, pi.msg.clone()).with_panic(pi)),
                Ok(rr) => {
                    if !rr.ok {
                        rec.record(mk("succeeds", format!("returned Err: {}", rr.err)));
                    } else if let Some(why) = structural(n, directed, &rr.nodes, &rr.edges) {
                        rec.record(mk("structure", why));
                    } else {
                        let want = pairs_possible(n as i64, directed);
                        let got: BTreeSet<(i32, i32)> = rr.edges.iter().map(|&(a, b)| if directed { (a, b) } else { (a.max(b), a.min(b)) }).collect();
                        if got != want || rr.edges.len() != want.len() {
                            let missing: Vec<_> = want.difference(&got).take(3).collect();
                            rec.record(mk("trace_edges", format!("{} edges emitted ({} distinct pairs), the zero-skip trace emits all {} pairs; missing e.g. {:?}", rr.edges.len(), got.len(), want.len(), missing)));
                        }
                    }
                }
            }
        }
    }
    out.set("extreme_p_runs", calls);
}

/// supplementary (sampling, labelled as such): real seeded ChaCha runs, structural invariants only
fn gnp_seeded_sampling(tier: &str, rec: &Recorder, out: &mut RunOutput, seed0: u64) {
    let ns: Vec<i32> = if tier == "quick" { vec![0, 1, 2, 3, 10, 50, 300] } else { (0..=300).collect() };
    let ps = [1e-12, 0.001, 0.01, 0.1, 0.5, 0.9, 0.99, 0.999999];
    let total = std::sync::Mutex::new(0u64);
    par_for(ns.len(), |i| {
        let n = ns[i];
        let mut k = 0;
        for &p in &ps {
            for directed in [false, true] {
                for s in 0..(if tier == "quick" { 4 } else { 16 }) {
                    k += 1;
                    let seed = seed0.wrapping_mul(1000).wrapping_add(s);
                    let case = format!("s:{}:{}:{}:{}", directed as u8, n, p, seed);
                    match guarded(|| random::fast_gnp_random_graph(n, p, directed, Some(seed))) {
                        Err(pi) => rec.record(Violation::new(if pi.is_overflow() { "no_overflow" } else { "no_panic" }, "fast_gnp_random_graph", case, pi.msg.clone()).with_panic(pi)),
                        Ok(Err(e)) => rec.record(Violation::new("succeeds", "fast_gnp_random_graph", case, format!("n={n} p={p} directed={directed} seed={seed}: Err({:?})", e.kind))),
                        Ok(Ok(g)) => {
                            let nodes: Vec<i32> = g.get_all_nodes().iter().map(|x| x.name).collect();
                            if let Some(why) = structural(n, directed, &nodes, &edges_of(&g, directed)) {
                                rec.record(Violation::new("structure", "fast_gnp_random_graph", case, format!("n={n} p={p} directed={directed} seed={seed}: {why}")));
                            }
                        }
                    }
                }
            }
        }
        *total.lock().unwrap() += k;
    });
    out.set("supplementary_seeded_runs_sampled", total.into_inner().unwrap());
}

pub fn run(tier: &str, rec: &Recorder) -> RunOutput {
    let start = Instant::now();
    let mut out = RunOutput::new("model_checking");
    let deadline = start + Duration::from_secs_f64(wall_cap_s(tier));
    let seed = std::env::var("VERIF_SEED").ok().and_then(|s| s.parse().ok()).unwrap_or(0);
    deterministic_generators(rec, &mut out);
    gnp_chain(tier, rec, &mut out, deadline);
    gnp_extreme_p(rec, &mut out);
    gnp_seeded_sampling(tier, rec, &mut out, seed);
    out.set("evaluations", out.get("transitions") + out.get("deterministic_generator_calls") + out.get("extreme_p_runs"));
    out.set("distinct_nontrivial", out.get("traces_validated_against_impl"));
    out.set("rule", "E6: the generator's only state is its cursor; the random source is the environment (injected RngCore). First the draw -> skip map is measured on the real code by bisection (no assumption about rand's u64 -> f64 mapping) and compared with the geometric law. For both kinds and every n up to the bound: every cursor state (reached by a first dictated skip k1) x every second skip k2 in 0..=min(L+1, k_max(p)) plus the largest skip one draw can produce (and all three-skip traces for small n), at p in {0.01,0.1,0.5,0.9,0.99}; the whole emitted pair set of every trace is compared with a linear-cell model of the published skipping scheme (= traces_validated_against_impl); on the validated chain the expected edge count is computed exactly by dynamic programming and every pair must be emitted by some trace. complete_graph for n=0..40,100,300, karate club vs the embedded Zachary list, argument validation, extreme p with dictated draws; seeded ChaCha runs are supplementary sampling (structure only)");
    out.require_nonzero("traces_validated_against_impl");
    out.assumptions = vec![
        "the generator's draw -> skip map is MEASURED on the real undirected generator (n = 64) by bisection over the u64 draw, and each skip's probability under a uniform draw is compared with p(1-p)^k; the directed generator is assumed to turn a draw into a skip the same way (its traces are dictated with the measured draws, so a different map shows up as a conformance failure)".into(),
        "distribution claims are decided on the chain (exact), not by sampling; p = NaN is not asserted".into(),
        "one probabilistic clause: consecutive UNSEEDED draws of G(24, 0.5) on one thread must differ; on a correct generator two such draws coincide with probability 2^-276 (undirected) / 2^-552 (directed), which is treated as impossible".into(),
    ];
    out
}

pub fn replay(case: &str, rec: &Recorder) -> bool {
    // cases are cheap: re-run the deterministic stages and the chain for the named n only
    let mut out = RunOutput::new("model_checking");
    let p: Vec<&str> = case.split(':').collect();
    match p[0] {
        "k" | "karate" | "arg" => deterministic_generators(rec, &mut out),
        "x" => gnp_extreme_p(rec, &mut out),
        "r" | "m" | "cov" => {
            gnp_chain("quick", rec, &mut out, Instant::now() + Duration::from_secs(600));
        }
        "s" => gnp_seeded_sampling("thorough", rec, &mut out, std::env::var("VERIF_SEED").ok().and_then(|s| s.parse().ok()).unwrap_or(0)),
        _ => return false,
    }
    rec.has_any()
}
