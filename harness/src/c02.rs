//! C02 — every read API describes one and the same graph (state invariant over E1 states).
use crate::common::*;
use crate::e1::*;
use crate::model::*;
use graphrs::{Error, ErrorKind, GraphSpecs};
use std::collections::BTreeSet;
use std::time::{Duration, Instant};

pub const ABSENT: N = "zz";

pub struct Base {
    pub nodes: Vec<(N, Option<A>)>,
    pub edges: Vec<SEdge>, // as stored, in get_all_edges order
    pub directed: bool,
    pub multi: bool,
}

impl Base {
    pub fn of(g: &G) -> Base {
        Base {
            nodes: real_nodes(g),
            edges: g.get_all_edges().iter().map(|e| (e.u, e.v, wbits(e.weight), e.attributes)).collect(),
            directed: g.specs.directed,
            multi: g.specs.multi_edges,
        }
    }
    pub fn has(&self, n: N) -> bool {
        self.nodes.iter().any(|x| x.0 == n)
    }
    pub fn pair(&self, u: N, v: N) -> Vec<SEdge> {
        self.edges.iter().filter(|e| (e.0 == u && e.1 == v) || (!self.directed && e.0 == v && e.1 == u)).cloned().collect()
    }
    pub fn touching(&self, x: N) -> Vec<SEdge> {
        self.edges.iter().filter(|e| e.0 == x || e.1 == x).cloned().collect()
    }
    pub fn succ(&self, x: N) -> BTreeSet<N> {
        let mut s = BTreeSet::new();
        for e in &self.edges {
            if e.0 == x {
                s.insert(e.1);
            }
            if !self.directed && e.1 == x {
                s.insert(e.0);
            }
        }
        s
    }
    pub fn pred(&self, x: N) -> BTreeSet<N> {
        let mut s = BTreeSet::new();
        for e in &self.edges {
            if e.1 == x {
                s.insert(e.0);
            }
            if !self.directed && e.0 == x {
                s.insert(e.1);
            }
        }
        s
    }
    pub fn neighbors(&self, x: N) -> BTreeSet<N> {
        let mut s = self.succ(x);
        s.extend(self.pred(x));
        s
    }
    pub fn reachable(&self, x: N) -> BTreeSet<N> {
        let mut seen = BTreeSet::new();
        let mut st = vec![x];
        while let Some(v) = st.pop() {
            if seen.insert(v) {
                for w in self.succ(v) {
                    st.push(w);
                }
            }
        }
        seen
    }
}

fn sorted(mut v: Vec<SEdge>) -> Vec<SEdge> {
    v.sort();
    v
}

fn ek<T>(r: &Result<T, Error>) -> String {
    match r {
        Ok(_) => "Ok".into(),
        Err(e) => format!("Err({:?})", e.kind),
    }
}

fn is_kind<T>(r: &Result<T, Error>, k: &str) -> bool {
    match r {
        Err(e) => format!("{:?}", e.kind) == k,
        _ => false,
    }
}

pub fn tags_for(b: &Base) -> Vec<String> {
    let mut t = vec![];
    t.push(if b.directed { "directed" } else { "undirected" }.to_string());
    if b.multi {
        t.push("multi_edges".into());
    }
    if b.edges.iter().any(|e| e.0 == e.1) {
        t.push("has_self_loop".into());
        if b.directed {
            t.push("directed_self_loop".into());
        }
    }
    t
}

/// All C02 query checks on one graph. `fail(clause, call, detail, extra_tags)`.
pub fn check_queries(g: &G, q: &[N], fail: &mut dyn FnMut(&str, &str, String, Vec<String>)) {
    let b = Base::of(g);
    let d = b.directed;
    let wrong_kind_ok = |r: &str, arg_absent: bool| r == "Err(WrongMethod)" || (arg_absent && r == "Err(NodeNotFound)");
    // --- pair queries
    for &u in q {
        for &v in q {
            let absent = !b.has(u) || !b.has(v);
            let exp = b.pair(u, v);
            let r = g.get_edge(u, v);
            let rk = ek(&r);
            if b.multi {
                if !wrong_kind_ok(&rk, absent) {
                    fail("kind_guard", "Graph::get_edge", format!("get_edge({u},{v}) on a multi-edge graph: {rk}"), vec![]);
                }
            } else if absent {
                if !is_kind(&r, "NodeNotFound") {
                    fail("absent_node", "Graph::get_edge", format!("get_edge({u},{v}) with an absent node: {rk}"), vec![]);
                }
            } else if exp.is_empty() {
                if !is_kind(&r, "EdgeNotFound") {
                    fail("absent_edge", "Graph::get_edge", format!("get_edge({u},{v}) without a stored edge: {rk}"), vec![]);
                }
            } else {
                match &r {
                    Ok(e) => {
                        let got = (e.u, e.v, wbits(e.weight), e.attributes);
                        if exp.len() != 1 || exp[0] != got {
                            fail("get_edge", "Graph::get_edge", format!("get_edge({u},{v}) = {got:?}, stored {exp:?}"), vec![]);
                        }
                    }
                    Err(_) => fail("get_edge", "Graph::get_edge", format!("get_edge({u},{v}) = {rk}, stored {exp:?}"), if !d && u > v { vec!["undirected_reversed_args".into()] } else { vec![] }),
                }
            }
            let r = g.get_edges(u, v);
            let rk = ek(&r);
            if !b.multi {
                if !wrong_kind_ok(&rk, absent) {
                    fail("kind_guard", "Graph::get_edges", format!("get_edges({u},{v}) on a single-edge graph: {rk}"), vec![]);
                }
            } else if absent {
                if !is_kind(&r, "NodeNotFound") {
                    fail("absent_node", "Graph::get_edges", format!("get_edges({u},{v}) with an absent node: {rk}"), vec![]);
                }
            } else if exp.is_empty() {
                if !is_kind(&r, "EdgeNotFound") {
                    fail("absent_edge", "Graph::get_edges", format!("get_edges({u},{v}) without a stored edge: {rk}"), vec![]);
                }
            } else {
                match &r {
                    Ok(es) => {
                        let got: Vec<SEdge> = es.iter().map(|e| (e.u, e.v, wbits(e.weight), e.attributes)).collect();
                        if got != exp {
                            fail("get_edges", "Graph::get_edges", format!("get_edges({u},{v}) = {got:?}, stored (in order) {exp:?}"), vec![]);
                        }
                    }
                    Err(_) => fail("get_edges", "Graph::get_edges", format!("get_edges({u},{v}) = {rk}, stored {exp:?}"), vec![]),
                }
            }
        }
    }
    // --- per-node queries
    for &x in q {
        let present = b.has(x);
        let selfloop = b.edges.iter().any(|e| e.0 == x && e.1 == x);
        let mut t = vec![];
        if selfloop && d {
            t.push("node_has_directed_self_loop".to_string());
        }
        let to_s = |es: &Vec<&std::sync::Arc<graphrs::Edge<N, A>>>| -> Vec<SEdge> { sorted(es.iter().map(|e| (e.u, e.v, wbits(e.weight), e.attributes)).collect()) };
        let r = g.get_edges_for_node(x);
        if !present {
            if !is_kind(&r, "NodeNotFound") {
                fail("absent_node", "Graph::get_edges_for_node", format!("get_edges_for_node({x}) absent: {}", ek(&r)), vec![]);
            }
        } else {
            match &r {
                Ok(es) => {
                    let got = to_s(es);
                    let exp = sorted(b.touching(x));
                    if got != exp {
                        fail("edges_for_node", "Graph::get_edges_for_node", format!("get_edges_for_node({x}) = {got:?}, stored edges touching it {exp:?}"), t.clone());
                    }
                }
                Err(_) => fail("edges_for_node", "Graph::get_edges_for_node", format!("get_edges_for_node({x}) = {}", ek(&r)), t.clone()),
            }
        }
        for (call, is_in) in [("Graph::get_in_edges_for_node", true), ("Graph::get_out_edges_for_node", false)] {
            let r = if is_in { g.get_in_edges_for_node(x) } else { g.get_out_edges_for_node(x) };
            let rk = ek(&r);
            if !d {
                if !wrong_kind_ok(&rk, !present) {
                    fail("kind_guard", call, format!("{call}({x}) on an undirected graph: {rk}"), vec![]);
                }
            } else if !present {
                if !is_kind(&r, "NodeNotFound") {
                    fail("absent_node", call, format!("{call}({x}) absent: {rk}"), vec![]);
                }
            } else {
                let exp = sorted(b.edges.iter().filter(|e| if is_in { e.1 == x } else { e.0 == x }).cloned().collect());
                match &r {
                    Ok(es) => {
                        let got = to_s(es);
                        if got != exp {
                            fail("in_out_edges_for_node", call, format!("{call}({x}) = {got:?}, expected {exp:?}"), t.clone());
                        }
                    }
                    Err(_) => fail("in_out_edges_for_node", call, format!("{call}({x}) = {rk}"), t.clone()),
                }
            }
        }
        // neighbours
        let r = g.get_neighbor_nodes(x);
        if !present {
            if !is_kind(&r, "NodeNotFound") {
                fail("absent_node", "Graph::get_neighbor_nodes", format!("get_neighbor_nodes({x}) absent: {}", ek(&r)), vec![]);
            }
        } else {
            match &r {
                Ok(ns) => {
                    let got: Vec<N> = ns.iter().map(|n| n.name).collect();
                    let gs: BTreeSet<N> = got.iter().cloned().collect();
                    let exp = b.neighbors(x);
                    if gs != exp {
                        fail("neighbor_nodes", "Graph::get_neighbor_nodes", format!("get_neighbor_nodes({x}) = {got:?}, expected {exp:?}"), vec![]);
                    } else if gs.len() != got.len() {
                        fail("neighbor_nodes_duplicates", "Graph::get_neighbor_nodes", format!("get_neighbor_nodes({x}) = {got:?} lists a node twice"), vec![]);
                    }
                }
                Err(_) => fail("neighbor_nodes", "Graph::get_neighbor_nodes", format!("get_neighbor_nodes({x}) = {}", ek(&r)), vec![]),
            }
        }
        // successors / predecessors
        for (call, is_succ, names) in [
            ("Graph::get_successor_nodes", true, false),
            ("Graph::get_successor_node_names", true, true),
            ("Graph::get_predecessor_nodes", false, false),
            ("Graph::get_predecessor_node_names", false, true),
        ] {
            let r: Result<Vec<N>, Error> = match (is_succ, names) {
                (true, false) => g.get_successor_nodes(x).map(|v| v.iter().map(|n| n.name).collect()),
                (true, true) => g.get_successor_node_names(x).map(|v| v.into_iter().cloned().collect()),
                (false, false) => g.get_predecessor_nodes(x).map(|v| v.iter().map(|n| n.name).collect()),
                (false, true) => g.get_predecessor_node_names(x).map(|v| v.into_iter().cloned().collect()),
            };
            let rk = ek(&r);
            if !d {
                if !wrong_kind_ok(&rk, !present) {
                    fail("kind_guard", call, format!("{call}({x}) on an undirected graph: {rk}"), vec![]);
                }
            } else if !present {
                if !is_kind(&r, "NodeNotFound") {
                    fail("absent_node", call, format!("{call}({x}) absent: {rk}"), vec![]);
                }
            } else {
                let exp = if is_succ { b.succ(x) } else { b.pred(x) };
                match &r {
                    Ok(got) => {
                        let gs: BTreeSet<N> = got.iter().cloned().collect();
                        if gs != exp || gs.len() != got.len() {
                            fail("succ_pred_nodes", call, format!("{call}({x}) = {got:?}, expected {exp:?}"), vec![]);
                        }
                    }
                    Err(_) => fail("succ_pred_nodes", call, format!("{call}({x}) = {rk}"), vec![]),
                }
            }
        }
        if present {
            let got: Vec<N> = g.get_successors_or_neighbors(x).iter().map(|n| n.name).collect();
            let gs: BTreeSet<N> = got.iter().cloned().collect();
            let exp = if d { b.succ(x) } else { b.neighbors(x) };
            if gs != exp || gs.len() != got.len() {
                fail("successors_or_neighbors", "Graph::get_successors_or_neighbors", format!("({x}) = {got:?}, expected {exp:?}"), vec![]);
            }
            // reachability
            let bfs = g.breadth_first_search(&x);
            let bs: BTreeSet<N> = bfs.iter().cloned().collect();
            let exp = b.reachable(x);
            if bfs.first() != Some(&x) || bs != exp || bs.len() != bfs.len() {
                fail("breadth_first_search", "Graph::breadth_first_search", format!("bfs({x}) = {bfs:?}, reachable set {exp:?}"), vec![]);
            }
        }
        // node lookups
        if g.has_node(&x) != present {
            fail("has_node", "Graph::has_node", format!("has_node({x}) = {}", !present), vec![]);
        }
        let gn = g.get_node(x).map(|n| (n.name, n.attributes));
        let en = b.nodes.iter().find(|n| n.0 == x).cloned();
        if gn != en {
            fail("get_node", "Graph::get_node", format!("get_node({x}) = {gn:?}, expected {en:?}"), vec![]);
        }
    }
    // --- maps
    let sm = g.get_successors_map();
    let pm = g.get_predecessors_map();
    for (k, _) in sm.iter() {
        if !b.has(k) {
            fail("successors_map", "Graph::get_successors_map", format!("foreign key {k}"), vec![]);
        }
    }
    for (k, _) in pm.iter() {
        if !b.has(k) {
            fail("predecessors_map", "Graph::get_predecessors_map", format!("foreign key {k}"), vec![]);
        }
    }
    for (x, _) in &b.nodes {
        let got: BTreeSet<N> = sm.get(x).map(|s| s.iter().cloned().collect()).unwrap_or_default();
        let exp = if d { b.succ(x) } else { b.neighbors(x) };
        if got != exp {
            fail("successors_map", "Graph::get_successors_map", format!("[{x}] = {got:?}, expected {exp:?}"), vec![]);
        }
        if d {
            let got: BTreeSet<N> = pm.get(x).map(|s| s.iter().cloned().collect()).unwrap_or_default();
            let exp = b.pred(x);
            if got != exp {
                fail("predecessors_map", "Graph::get_predecessors_map", format!("[{x}] = {got:?}, expected {exp:?}"), vec![]);
            }
        }
    }
    // --- name LISTS with repeats (a slice is a list; it may be longer than the node list): same answers as for the set
    for &x in q {
        for &y in q {
            for l in [vec![x, x, x, x], vec![x, y, x, y, x, y, x], vec![y, x, x]] {
                let mut set = l.clone();
                set.sort();
                set.dedup();
                if g.has_nodes(&l) != g.has_nodes(&set) {
                    fail("has_nodes_list", "Graph::has_nodes", format!("has_nodes({l:?}) = {} but has_nodes({set:?}) = {}", g.has_nodes(&l), g.has_nodes(&set)), vec![]);
                }
                let canon = |r: Result<Vec<&std::sync::Arc<graphrs::Edge<N, A>>>, graphrs::Error>| -> String {
                    match r {
                        Ok(es) => format!("Ok({:?})", sorted(es.iter().map(|e| (e.u, e.v, wbits(e.weight), e.attributes)).collect())),
                        Err(e) => format!("Err({:?})", e.kind),
                    }
                };
                for (name, a, b2) in [
                    ("Graph::get_edges_for_nodes", canon(g.get_edges_for_nodes(&l)), canon(g.get_edges_for_nodes(&set))),
                    ("Graph::get_in_edges_for_nodes", canon(g.get_in_edges_for_nodes(&l)), canon(g.get_in_edges_for_nodes(&set))),
                    ("Graph::get_out_edges_for_nodes", canon(g.get_out_edges_for_nodes(&l)), canon(g.get_out_edges_for_nodes(&set))),
                ] {
                    if a != b2 {
                        fail("node_list_with_repeats", name, format!("for the list {l:?}: {a}; for the set {set:?}: {b2}"), vec![]);
                    }
                }
            }
        }
    }
    // --- subsets
    let nq = q.len();
    for mask in 0..(1usize << nq) {
        let s: Vec<N> = (0..nq).filter(|i| mask >> i & 1 == 1).map(|i| q[i]).collect();
        let all_present = s.iter().all(|x| b.has(x));
        if g.has_nodes(&s) != all_present {
            fail("has_nodes", "Graph::has_nodes", format!("has_nodes({s:?}) = {}", !all_present), vec![]);
        }
        let to_s = |es: &Vec<&std::sync::Arc<graphrs::Edge<N, A>>>| -> Vec<SEdge> { sorted(es.iter().map(|e| (e.u, e.v, wbits(e.weight), e.attributes)).collect()) };
        let r = g.get_edges_for_nodes(&s);
        if !all_present {
            if !is_kind(&r, "NodeNotFound") {
                fail("absent_node", "Graph::get_edges_for_nodes", format!("get_edges_for_nodes({s:?}): {}", ek(&r)), vec![]);
            }
        } else if let Ok(es) = &r {
            let exp = sorted(b.edges.iter().filter(|e| s.contains(&e.0) || s.contains(&e.1)).cloned().collect());
            if to_s(es) != exp {
                fail("edges_for_nodes", "Graph::get_edges_for_nodes", format!("get_edges_for_nodes({s:?}) = {:?}, expected {exp:?}", to_s(es)), vec![]);
            }
        } else {
            fail("edges_for_nodes", "Graph::get_edges_for_nodes", format!("get_edges_for_nodes({s:?}): {}", ek(&r)), vec![]);
        }
        for (call, is_in) in [("Graph::get_in_edges_for_nodes", true), ("Graph::get_out_edges_for_nodes", false)] {
            let r = if is_in { g.get_in_edges_for_nodes(&s) } else { g.get_out_edges_for_nodes(&s) };
            let rk = ek(&r);
            if !d {
                if !wrong_kind_ok(&rk, !all_present) {
                    fail("kind_guard", call, format!("{call}({s:?}) on an undirected graph: {rk}"), vec![]);
                }
            } else if !all_present {
                if !is_kind(&r, "NodeNotFound") {
                    fail("absent_node", call, format!("{call}({s:?}): {rk}"), vec![]);
                }
            } else if let Ok(es) = &r {
                let exp = sorted(b.edges.iter().filter(|e| if is_in { s.contains(&e.1) } else { s.contains(&e.0) }).cloned().collect());
                if to_s(es) != exp {
                    fail("in_out_edges_for_nodes", call, format!("{call}({s:?}) = {:?}, expected {exp:?}", to_s(es)), vec![]);
                }
            } else {
                fail("in_out_edges_for_nodes", call, format!("{call}({s:?}): {rk}"), vec![]);
            }
        }
    }
    // --- positions
    let n = b.nodes.len();
    if g.number_of_nodes() != n {
        fail("number_of_nodes", "Graph::number_of_nodes", format!("{} vs {n}", g.number_of_nodes()), vec![]);
    }
    let names: Vec<N> = g.get_all_node_names().into_iter().cloned().collect();
    if names != b.nodes.iter().map(|x| x.0).collect::<Vec<_>>() {
        fail("all_node_names", "Graph::get_all_node_names", format!("{names:?}"), vec![]);
    }
    for i in 0..=n {
        let got = g.get_node_by_index(&i).map(|x| (x.name, x.attributes));
        let exp = b.nodes.get(i).cloned();
        if got != exp {
            fail("node_by_index", "Graph::get_node_by_index", format!("get_node_by_index({i}) = {got:?}, expected {exp:?}"), vec![]);
        }
    }
}

/// White-box coherence of the redundant private indexes (hook H1).
pub fn check_indexes(s: &CanonSnap, specs: &GraphSpecs, fail: &mut dyn FnMut(&str, &str, String, Vec<String>)) {
    let call = "Graph::verif_snapshot";
    let n = s.nodes_vec.len();
    // nodes_map / nodes_map_rev / nodes_vec are mutually inverse
    let mut ok = s.nodes_map.len() == n && s.nodes_map_rev.len() == n;
    for (i, (name, attr)) in s.nodes_vec.iter().enumerate() {
        ok &= s.nodes_map.iter().any(|(k, v)| k == name && *v == i);
        ok &= s.nodes_map_rev.iter().any(|(k, nm, at)| *k == i && nm == name && at == attr);
    }
    if !ok {
        fail("index_nodes", call, format!("nodes_vec {:?} nodes_map {:?} nodes_map_rev {:?}", s.nodes_vec, s.nodes_map, s.nodes_map_rev), vec![]);
    }
    let pos = |name: N| s.nodes_vec.iter().position(|x| x.0 == name);
    // name-keyed and position-keyed stores hold the same lists
    let mut by_pos: Vec<((usize, usize), Vec<SEdge>)> = vec![];
    for ((a, b), es) in &s.edges {
        if es.is_empty() || es.iter().any(|e| e.0 != *a || e.1 != *b) {
            fail("index_edges", call, format!("edges[{a},{b}] holds {es:?}"), vec![]);
        }
        if !specs.directed && a > b {
            fail("index_edges", call, format!("undirected name key not canonical: ({a},{b})"), vec![]);
        }
        if !specs.multi_edges && es.len() != 1 {
            fail("index_edges", call, format!("single-edge graph stores {} edges for ({a},{b})", es.len()), vec![]);
        }
        match (pos(a), pos(b)) {
            (Some(i), Some(j)) => {
                let k = if !specs.directed && i > j { (j, i) } else { (i, j) };
                by_pos.push((k, es.clone()));
            }
            _ => fail("index_edges", call, format!("edge key ({a},{b}) names an unknown node"), vec![]),
        }
    }
    by_pos.sort_by(|x, y| x.0.cmp(&y.0));
    if by_pos != s.edges_map {
        fail("index_edge_stores_differ", call, format!("edges (re-keyed by position) {:?} vs edges_map {:?}", by_pos, s.edges_map), vec![]);
    }
    // adjacency triples
    for (label, by_name, by_idx, by_vec, succ_side) in
        [("successors", &s.successors, &s.successors_map, &s.successors_vec, true), ("predecessors", &s.predecessors, &s.predecessors_map, &s.predecessors_vec, false)]
    {
        if by_vec.len() != n {
            fail("index_adjacency", call, format!("{label}_vec has {} rows for {n} nodes", by_vec.len()), vec![]);
            continue;
        }
        for i in 0..n {
            let name = s.nodes_vec[i].0;
            let a: BTreeSet<usize> = by_name.iter().find(|x| x.0 == name).map(|x| x.1.iter().filter_map(|m| pos(m)).collect()).unwrap_or_default();
            let b: BTreeSet<usize> = by_idx.iter().find(|x| x.0 == i).map(|x| x.1.iter().cloned().collect()).unwrap_or_default();
            let c: BTreeSet<usize> = by_vec[i].iter().map(|x| x.0).collect();
            // expected from the edge store
            let mut e: BTreeSet<usize> = BTreeSet::new();
            for ((x, y), _) in &s.edges_map {
                if specs.directed {
                    if succ_side && *x == i {
                        e.insert(*y);
                    }
                    if !succ_side && *y == i {
                        e.insert(*x);
                    }
                } else if succ_side {
                    if *x == i {
                        e.insert(*y);
                    }
                    if *y == i {
                        e.insert(*x);
                    }
                }
            }
            if a != b || b != c || c != e {
                fail("index_adjacency", call, format!("{label} of position {i}: by name {a:?}, by index {b:?}, vec {c:?}, edge store {e:?}"), vec![]);
            }
        }
        for (k, _) in by_name.iter() {
            if pos(k).is_none() {
                fail("index_adjacency", call, format!("{label} has foreign key {k}"), vec![]);
            }
        }
    }
}

pub struct C02Oracle;

impl E1Oracle for C02Oracle {
    fn warmup(&mut self, g: &G, alphabet: &Alphabet) {
        let mut q: Vec<N> = alphabet.names.clone();
        q.push(ABSENT);
        check_queries(g, &q, &mut |_, _, _, _| {});
    }
    fn fingerprint(&mut self, g: &G, alphabet: &Alphabet) -> u64 {
        let mut h = 0u64;
        fp_mix(&mut h, g.number_of_nodes() as u64);
        fp_mix(&mut h, g.get_all_edges().len() as u64);
        for &n in &alphabet.names {
            fp_mix(&mut h, g.get_edges_for_node(n).map_or(u64::MAX, |v| v.len() as u64));
            fp_mix(&mut h, g.get_neighbor_nodes(n).map_or(u64::MAX, |v| v.len() as u64));
            fp_mix(&mut h, g.get_successor_nodes(n).map_or(u64::MAX, |v| v.len() as u64));
            fp_mix(&mut h, g.get_predecessor_nodes(n).map_or(u64::MAX, |v| v.len() as u64));
            fp_mix(&mut h, g.get_successors_map().get(n).map_or(u64::MAX, |v| v.len() as u64));
            fp_mix(&mut h, g.get_predecessors_map().get(n).map_or(u64::MAX, |v| v.len() as u64));
            if g.has_node(&n) {
                fp_mix(&mut h, g.breadth_first_search(&n).len() as u64);
            }
            for &m in &alphabet.names {
                fp_mix(&mut h, g.get_edge(n, m).map_or(u64::MAX, |e| wbits(e.weight)));
                fp_mix(&mut h, g.get_edges(n, m).map_or(u64::MAX, |v| v.len() as u64));
            }
        }
        h
    }
    fn state(&mut self, s: &StateCtx, rec: &Recorder, c: &mut Counters) {
        let mut q: Vec<N> = s.alphabet.names.clone();
        q.push(ABSENT);
        let b = Base::of(s.g);
        let base_tags = tags_for(&b);
        let mut nq = 0u64;
        let mut fail = |clause: &str, call: &str, detail: String, mut extra: Vec<String>| {
            let ops: Vec<String> = ops_of(s.alphabet, s.hist).iter().map(|o| o.short()).collect();
            extra.extend(base_tags.iter().cloned());
            rec.record(
                Violation::new(clause, call, case_id(s.spec_idx, s.alphabet.name, s.hist, ""), format!("specs: {}\nhistory: {}\n{}", spec_str(s.specs), ops.join(" ; "), detail))
                    .with_tags(extra)
                    .with_snippet(history_snippet("replay", s.specs, &ops_of(s.alphabet, s.hist), &format!("    // then: {call} -- {}\n", detail.replace('\n', " ")))),
            );
            nq += 1;
        };
        let r = guarded(|| {
            check_queries(s.g, &q, &mut fail);
            check_indexes(s.snap, s.specs, &mut fail);
        });
        if let Err(pi) = r {
            rec.record(
                Violation::new("no_panic", "query", case_id(s.spec_idx, s.alphabet.name, s.hist, ""), format!("a query panicked: {}", pi.msg))
                    .with_panic(pi)
                    .with_tags(base_tags.clone())
                    .with_snippet(history_snippet("replay", s.specs, &ops_of(s.alphabet, s.hist), "")),
            );
        }
        c.inc("states_checked");
        if !b.directed && b.edges.iter().any(|e| {
            let pu = b.nodes.iter().position(|x| x.0 == e.0).unwrap();
            let pv = b.nodes.iter().position(|x| x.0 == e.1).unwrap();
            (e.0 < e.1) != (pu < pv) && e.0 != e.1
        }) {
            c.inc("undirected_states_name_order_differs_from_position_order");
        }
        if b.multi && b.edges.len() >= 2 {
            let mut ps: Vec<(N, N)> = b.edges.iter().map(|e| if !b.directed && e.0 > e.1 { (e.1, e.0) } else { (e.0, e.1) }).collect();
            ps.sort();
            if ps.windows(2).any(|w| w[0] == w[1]) {
                c.inc("states_with_parallel_edges");
            }
        }
        if b.edges.iter().any(|e| e.0 == e.1) {
            c.inc("states_with_self_loops");
        }
    }
}

/// the query names embedded in a graph with hundreds of other nodes: the same queries, the same expected answers, but
/// every size-dependent branch of a query (fast paths chosen by the ratio of requested names to nodes) is on the other
/// side.  Nodes a, b, c carry loops, a mutual pair, parallel edges (multi kinds) and edges into the filler nodes.
const WIDE_FILLERS: usize = 300;
fn wide_graph(directed: bool, multi: bool, late: bool) -> G {
    let base = if directed { graphrs::GraphSpecs::directed_create_missing() } else { graphrs::GraphSpecs::undirected_create_missing() };
    let mut g = G::new(graphrs::GraphSpecs { multi_edges: multi, self_loops: true, ..base });
    let fillers: Vec<N> = (0..WIDE_FILLERS).map(|i| &*Box::leak(format!("f{i:03}").into_boxed_str())).collect();
    let e = |u: N, v: N, w: f64| graphrs::Edge::with_weight(u, v, w);
    let core = |g: &mut G| {
        for (u, v, w) in [("c", "a", 1.0), ("a", "a", 2.0), ("a", "b", 1.0), ("b", "a", 2.0), ("b", "b", 1.0), ("b", "c", 2.0)] {
            let _ = g.add_edge(e(u, v, w));
        }
        if multi {
            let _ = g.add_edge(e("a", "a", 1.0));
            let _ = g.add_edge(e("a", "b", 2.0));
        }
    };
    if !late {
        core(&mut g);
    }
    for i in 0..WIDE_FILLERS {
        let _ = g.add_edge(e(fillers[i], fillers[(i + 1) % WIDE_FILLERS], 1.0));
    }
    if late {
        core(&mut g);
    }
    let _ = g.add_edge(e("a", fillers[7], 1.0));
    let _ = g.add_edge(e(fillers[9], "a", 2.0));
    let _ = g.add_edge(e("c", fillers[11], 1.0));
    g
}
fn wide_stage(rec: &Recorder, c: &mut Counters, only: Option<&str>) {
    for directed in [true, false] {
        for multi in [false, true] {
            for late in [false, true] {
                let case = format!("wide:{}:{}:{}", directed as u8, multi as u8, late as u8);
                if only.map_or(false, |o| o != case) {
                    continue;
                }
                c.inc("wide_graphs_checked");
                let g = wide_graph(directed, multi, late);
                let q: Vec<N> = vec!["a", "b", "c", ABSENT];
                let mut fail = |clause: &str, call: &str, detail: String, mut extra: Vec<String>| {
                    extra.push("wide_graph".into());
                    rec.record(Violation::new(clause, call, case.clone(), format!("{} {} graph with self-loops: nodes a, b, c (edges c-a, a-a, a-b, b-a, b-b, b-c{}) {} a ring of {WIDE_FILLERS} filler nodes, plus a-f007, f009-a, c-f011\n{detail}", if directed { "directed" } else { "undirected" }, if multi { "multi-edge" } else { "single-edge" }, if multi { ", second a-a and a-b" } else { "" }, if late { "added after" } else { "added before" })).with_tags(extra));
                };
                if let Err(pi) = guarded(|| check_queries(&g, &q, &mut fail)) {
                    rec.record(Violation::new("no_panic", "query", case.clone(), format!("a query panicked: {}", pi.msg)).with_panic(pi));
                }
            }
        }
    }
}

pub fn run(tier: &str, rec: &Recorder) -> RunOutput {
    let start = Instant::now();
    let mut out = RunOutput::new("model_checking");
    let cap = wall_cap_s(tier);
    let stages: Vec<(&'static str, usize)> = if tier == "quick" { vec![("mix2", 4), ("mixn3", 3), ("mix3", 2), ("mix2@alias", 3), ("w2b", 3)] } else { vec![("full2", 5), ("mix3", 4), ("mixn3", 4), ("mix2@alias", 5), ("mixn3@alias", 4), ("w2b", 4)] };
    let n_st = stages.len() as f64;
    let mut notes = vec![];
    let mut ex = true;
    for (alpha, depth) in stages {
        let p = E1Params {
            alphabet: alpha,
            depth,
            batch_depth: if alpha.ends_with("2b") { 2 } else { 0 },
            specs: all_specs_costly_first(),
            max_states_per_spec: 60_000_000,
            deadline: start + Duration::from_secs_f64(cap * (notes.len() as f64 + 1.0) / n_st),
        };
        let r = explore(&p, rec, || C02Oracle);
        notes.push(serde_json::json!({"alphabet": alpha, "depth": depth, "states": r.states, "transitions": r.transitions, "depth_completed_all_specs": r.max_depth_completed, "capped": r.capped}));
        fill_e1_coverage(&mut out, &r, &p);
        ex &= !r.capped;
    }
    {
        let mut c = Counters::default();
        wide_stage(rec, &mut c, None);
        for (k, v) in &c.0 {
            out.add(k, *v);
        }
    }
    out.set("exhaustive", ex);
    out.set("stages", serde_json::Value::Array(notes));
    out.set("traces_validated_against_impl", out.get("states_checked"));
    out.set("evaluations", out.get("states_checked"));
    out.set("distinct_nontrivial", out.get("states"));
    out.set("rule", "every distinct state (canonical snapshot of all private indexes) reached by E1 histories, for all 96 GraphSpecs; on each state every query of src/graph/query.rs is called with every ordered pair / every subset / every index over the name universe plus one absent name and compared with the answer computed from get_all_nodes()/get_all_edges(); the private indexes are compared with one another through the snapshot accessor");
    out.set("queries_per_state", "get_edge,get_edges x pairs; get_edges_for_node(s), get_in/out_edges_for_node(s), neighbors, successors, predecessors (+names), maps, successors_or_neighbors, bfs, has_node(s), get_node, get_node_by_index, number_of_nodes, get_all_node_names; index coherence");
    for k in ["states_checked", "undirected_states_name_order_differs_from_position_order", "states_with_parallel_edges", "states_with_self_loops"] {
        out.require_nonzero(k);
    }
    out.assumptions = vec!["names {a,b,c}+absent zz; weights {NaN,1,2}; depth bound as reported".into(), "base view = the graph's own get_all_nodes/get_all_edges (C01 checks that view against the reference model)".into()];
    out
}

pub fn replay(case: &str, rec: &Recorder) -> bool {
    if case.starts_with("wide:") {
        let mut c = Counters::default();
        wide_stage(rec, &mut c, Some(case));
        return rec.has_any();
    }
    let pc = match parse_case(case) {
        Some(p) => p,
        None => return false,
    };
    let specs = spec_from_index(pc.spec_idx);
    let ops = ops_of(&pc.alphabet, &pc.hist);
    for round in 0..2 {
        let (g, _) = build_real(&specs, &ops);
        let r = replay_ref(&specs, &ops);
        let sn = snap(&g);
        println!("round {round}: specs=[{}] history={:?}", spec_str(&specs), ops.iter().map(|o| o.short()).collect::<Vec<_>>());
        println!("  nodes={:?} edges={:?}", real_nodes(&g), real_edges_raw(&g));
        let mut c = Counters::default();
        C02Oracle.state(&StateCtx { spec_idx: pc.spec_idx, specs: &specs, alphabet: &pc.alphabet, hist: &pc.hist, g: &g, r: &r, snap: &sn }, rec, &mut c);
    }
    rec.has_any()
}
