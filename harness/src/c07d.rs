//! C07 stage C/D — conformance of the rayon contract model against REAL rayon: the same inputs and
//! calls inside caller-installed pools of every size 1..=16 and on the global pool, plus concurrent
//! read-only use of one graph from several threads. Prints digests; `gvpar` compares them with the
//! model's outcomes. (Samples real schedules: it validates the model and can only add violations.)
#[path = "c07_inputs.rs"]
mod c07_inputs;
use c07_inputs::*;

pub fn main(tier: &str) {
    let reps = if tier == "quick" { 2 } else { 3 };
    let inputs = large_inputs(tier);
    let one = rayon::ThreadPoolBuilder::new().num_threads(1).build().expect("pool");
    let pools: Vec<(usize, rayon::ThreadPool)> = (2..=16usize).filter(|k| tier != "quick" || [2, 3, 4, 8, 16].contains(k)).map(|k| (k, rayon::ThreadPoolBuilder::new().num_threads(k).build().expect("pool"))).collect();
    for inp in &inputs {
        let cs = calls(inp);
        let mut refs = vec![];
        for (name, f) in &cs {
            let r = one.install(|| f());
            println!("R\t{}\t{}\t{:016x}", inp.name, name, r);
            refs.push(r);
        }
        let big = inp.g.number_of_nodes() > 100;
        for (k, pool) in &pools {
            // big inputs: fewer pool sizes and one repetition in the quick tier
            if big && tier == "quick" && ![3usize, 16].contains(k) {
                continue;
            }
            for rep in 0..(if big { 1 } else { reps }) {
                for (name, f) in &cs {
                    let d = pool.install(|| f());
                    println!("D\t{}\t{}\t{}\t{}\t{:016x}", inp.name, name, k, rep, d);
                }
            }
        }
        // the global pool (whatever size it has on this machine)
        for (name, f) in &cs {
            println!("D\t{}\t{}\tglobal\t0\t{:016x}", inp.name, name, f());
        }
        // stage C: k threads issue different read-only calls on the same &Graph at the same time
        for k in [2usize, 3] {
            let picks: Vec<usize> = (0..k).map(|i| (i * 5 + 1) % cs.len()).collect();
            let results: Vec<u64> = std::thread::scope(|sc| {
                let hs: Vec<_> = picks.iter().map(|&ci| { let f = &cs[ci].1; sc.spawn(move || f()) }).collect();
                hs.into_iter().map(|h| h.join().expect("thread")).collect()
            });
            for (i, &ci) in picks.iter().enumerate() {
                println!("C\t{}\t{}\t{}\t{:016x}\t{:016x}", inp.name, cs[ci].0, k, results[i], refs[ci]);
            }
        }
    }
    println!("END");
}
