//! C19 — the GraphML reader never panics: any input yields Ok(valid graph) or Err.
//! E5: document fault enumerator (every single-point fault of base documents, pairs on a short
//! base, grammar-generated near-GraphML documents).
use crate::common::*;
use crate::model::{spec_from_index, spec_str, EdgeSpec, RefGraph, ResKind, NAN_BITS};
use graphrs::readwrite::graphml;
use graphrs::{Edge, Graph, GraphSpecs, Node};
use quick_xml::events::{BytesStart, Event};
use quick_xml::Reader;
use std::collections::HashMap;
use std::sync::Mutex;
use std::time::{Duration, Instant};

// ------------------------------------------------------------------ harness-side interpretation of a document

fn intern(s: &str) -> &'static str {
    static POOL: Mutex<Option<HashMap<String, &'static str>>> = Mutex::new(None);
    let mut g = POOL.lock().unwrap();
    let m = g.get_or_insert_with(HashMap::new);
    if let Some(x) = m.get(s) {
        return x;
    }
    let l: &'static str = Box::leak(s.to_string().into_boxed_str());
    m.insert(s.to_string(), l);
    l
}

struct DocView {
    /// false when a weight-keyed data element sits somewhere other than directly inside a start-form edge
    weights_comparable: bool,
    graph_starts: usize,
    graph_other_forms: usize,
    directed: Option<bool>,
    nodes: Vec<String>,
    /// (source, target, weight to compare: Some(bits) / None = do not compare)
    edges: Vec<(String, String, Option<u64>)>,
}

fn attrs_of(e: &BytesStart) -> Option<HashMap<String, String>> {
    let mut m = HashMap::new();
    for a in e.attributes() {
        let a = a.ok()?;
        let k = String::from_utf8(a.key.local_name().as_ref().to_vec()).ok()?;
        let v = a.unescape_value().ok()?.into_owned();
        m.insert(k, v);
    }
    Some(m)
}

/// the harness's own tokenisation (quick-xml used directly); None = not a document the oracle interprets
fn interpret(doc: &str) -> Option<DocView> {
    let mut r = Reader::from_str(doc);
    let mut v = DocView { weights_comparable: true, graph_starts: 0, graph_other_forms: 0, directed: None, nodes: vec![], edges: vec![] };
    let mut weight_key = "weight".to_string();
    // stack of open element names, to know whether a data element is a direct child of a start-form edge
    let mut stack: Vec<(String, Option<usize>)> = vec![];
    loop {
        let ev = r.read_event().ok()?;
        match ev {
            Event::Eof => break,
            Event::Start(ref e) | Event::Empty(ref e) => {
                let is_start = matches!(ev, Event::Start(_));
                let name = String::from_utf8(e.name().as_ref().to_vec()).ok()?;
                let mut edge_idx = None;
                match name.as_str() {
                    "graph" => {
                        if is_start {
                            v.graph_starts += 1;
                            let a = attrs_of(e)?;
                            v.directed = match a.get("edgedefault").map(|s| s.as_str()) {
                                Some("directed") => Some(true),
                                Some("undirected") => Some(false),
                                _ => return None,
                            };
                        } else {
                            v.graph_other_forms += 1;
                        }
                    }
                    "node" => {
                        let a = attrs_of(e)?;
                        v.nodes.push(a.get("id")?.clone());
                    }
                    "edge" => {
                        let a = attrs_of(e)?;
                        v.edges.push((a.get("source")?.clone(), a.get("target")?.clone(), if is_start { Some(NAN_BITS) } else { None }));
                        edge_idx = Some(v.edges.len() - 1);
                    }
                    "key" => {
                        let a = attrs_of(e)?;
                        if a.get("attr.name").map(|s| s.as_str()) == Some("weight") {
                            if a.get("for").map(|s| s.as_str()) == Some("edge") {
                                weight_key = a.get("id")?.clone();
                            } else if a.get("for").is_none() {
                                return None;
                            }
                        }
                    }
                    "data" => {
                        // weights are compared only for a data element that is a direct child of a start-form edge,
                        // holding plain text; anything else makes that edge's weight "not compared"
                        let a = attrs_of(e)?;
                        let parent_edge = stack.last().and_then(|(n, i)| if n == "edge" { *i } else { None });
                        if a.get("key").map(|k| *k == weight_key).unwrap_or(false) {
                            match parent_edge {
                                Some(i) if is_start => {
                                    // look at the next event without consuming structure: clone the reader
                                    let mut r2 = r.clone();
                                    match r2.read_event().ok()? {
                                        Event::Text(t) => {
                                            let txt = std::str::from_utf8(&t).ok()?.to_string();
                                            match txt.parse::<f64>() {
                                                Ok(w) => v.edges[i].2 = Some(crate::model::wbits(w)),
                                                Err(_) => return None,
                                            }
                                        }
                                        _ => v.edges[i].2 = None,
                                    }
                                }
                                _ => {
                                    // weight data outside a start-form edge: the reader may attach it anywhere; structure only
                                    v.weights_comparable = false;
                                }
                            }
                        }
                    }
                    _ => {}
                }
                if is_start {
                    stack.push((name, edge_idx));
                }
            }
            Event::End(_) => {
                stack.pop();
            }
            _ => {}
        }
    }
    Some(v)
}

fn kind_str(k: &ResKind) -> String {
    format!("{k:?}")
}

/// oracle for one document under one spec combination
pub fn check_doc(doc: &str, case: &str, specs_idx: usize, rec: &Recorder, c: &mut Counters) {
    let specs = spec_from_index(specs_idx);
    let mk = |clause: &str, detail: String| {
        let shown = if doc.len() > 1500 { format!("{}… ({} bytes)", &doc[..doc.char_indices().nth(1500).map(|x| x.0).unwrap_or(doc.len())], doc.len()) } else { doc.to_string() };
        Violation::new(clause, "read_graphml_string", format!("{case}|spec={specs_idx}"), format!("specs: {}\ndocument: {shown}\n{detail}", spec_str(&specs)))
            .with_snippet(format!("#[test]\nfn replay() {{\n    let doc = {:?};\n    let _ = graphrs::readwrite::graphml::read_graphml_string(doc, /* specs index {specs_idx}: {} */ graphrs::GraphSpecs::directed());\n}}\n", shown, spec_str(&specs)))
    };
    c.inc("documents_read");
    let r = guarded(|| graphml::read_graphml_string(doc, specs.clone()));
    match r {
        Err(pi) => {
            rec.record(mk(if pi.is_overflow() { "no_overflow" } else { "no_panic" }, format!("the reader panicked: {}", pi.msg)).with_panic(pi));
        }
        Ok(Err(e)) => {
            c.inc("reader_returned_err");
            let _ = e;
        }
        Ok(Ok(g)) => {
            c.inc("reader_returned_ok");
            let view = match interpret(doc) {
                Some(v) if v.graph_starts == 1 && v.graph_other_forms == 0 => v,
                _ => {
                    c.inc("ok_documents_not_interpreted_by_oracle");
                    return;
                }
            };
            c.inc("ok_documents_compared_with_reference");
            let structure_only = !view.weights_comparable;
            let directed = view.directed.unwrap_or(true);
            if g.specs.directed != directed {
                rec.record(mk("directedness", format!("the graph is {} but the document declares edgedefault={}", if g.specs.directed { "directed" } else { "undirected" }, if directed { "directed" } else { "undirected" })));
                return;
            }
            // reference model under the supplied specs with the declared directedness
            let mut rg = RefGraph::new(GraphSpecs { directed, ..specs.clone() });
            for n in &view.nodes {
                rg.add_node(intern(n), None);
            }
            let mut ref_err = None;
            for (s, t, w) in &view.edges {
                let k = rg.add_edge(&EdgeSpec { u: intern(s), v: intern(t), w: w.unwrap_or(NAN_BITS), attr: None });
                if k != ResKind::Ok {
                    ref_err = Some(k);
                    break;
                }
            }
            if let Some(k) = ref_err {
                rec.record(mk("ok_but_specs_reject", format!("the reader returned a graph, but the document's elements are rejected by the supplied specs ({})", kind_str(&k))));
                return;
            }
            let got_nodes: Vec<String> = g.get_all_nodes().iter().map(|n| n.name.clone()).collect();
            let exp_nodes: Vec<String> = rg.nodes.iter().map(|n| n.0.to_string()).collect();
            if got_nodes != exp_nodes {
                rec.record(mk("nodes", format!("graph nodes {got_nodes:?}, document (under the specs) gives {exp_nodes:?}")));
                return;
            }
            let canon = |u: &str, v: &str| if !directed && u > v { (v.to_string(), u.to_string()) } else { (u.to_string(), v.to_string()) };
            let mut got: Vec<(String, String)> = g.get_all_edges().iter().map(|e| canon(&e.u, &e.v)).collect();
            got.sort();
            let mut exp: Vec<(String, String)> = rg.edges.iter().map(|e| canon(e.u, e.v)).collect();
            exp.sort();
            if got != exp {
                rec.record(mk("edges", format!("graph edges {got:?}, document (under the specs) gives {exp:?}")));
                return;
            }
            // weights where comparable: every edge's weight known and single-edge-per-pair (no ambiguity)
            if !structure_only && !specs.multi_edges && view.edges.iter().all(|e| e.2.is_some()) {
                let mut gw: Vec<(String, String, u64)> = g.get_all_edges().iter().map(|e| { let (a, b) = canon(&e.u, &e.v); (a, b, crate::model::wbits(e.weight)) }).collect();
                gw.sort();
                let mut ew: Vec<(String, String, u64)> = rg.edges.iter().map(|e| { let (a, b) = canon(e.u, e.v); (a, b, e.w) }).collect();
                ew.sort();
                if gw != ew {
                    rec.record(mk("weights", format!("graph edge weights {:?}, document gives {:?}", gw.iter().map(|x| (&x.0, &x.1, crate::model::wstr(x.2))).collect::<Vec<_>>(), ew.iter().map(|x| (&x.0, &x.1, crate::model::wstr(x.2))).collect::<Vec<_>>())));
                }
                c.inc("ok_documents_with_weights_compared");
            }
        }
    }
}

// ------------------------------------------------------------------ base documents and faults

pub fn bases() -> Vec<(&'static str, String)> {
    let mut v = vec![];
    let mut g1: Graph<String, ()> = Graph::new(GraphSpecs::directed_create_missing());
    for n in ["n1", "n2", "n3"] {
        g1.add_node(Node::from_name(n.to_string()));
    }
    g1.add_edge(Edge::with_weight("n1".to_string(), "n2".to_string(), 1.5)).unwrap();
    g1.add_edge(Edge::with_weight("n2".to_string(), "n3".to_string(), 2.0)).unwrap();
    g1.add_edge(Edge::with_weight("n3".to_string(), "n1".to_string(), 0.25)).unwrap();
    v.push(("B1", graphml::write_graphml_string(&g1).unwrap()));
    let mut g2: Graph<String, ()> = Graph::new(GraphSpecs::undirected_create_missing());
    for n in ["a&b", "<c>", "d\"e"] {
        g2.add_node(Node::from_name(n.to_string()));
    }
    g2.add_edge(Edge::new("a&b".to_string(), "<c>".to_string())).unwrap();
    g2.add_edge(Edge::new("<c>".to_string(), "d\"e".to_string())).unwrap();
    v.push(("B2", graphml::write_graphml_string(&g2).unwrap()));
    v.push(("B3", concat!(
        "<?xml version=\"1.0\" encoding=\"UTF-8\"?><!DOCTYPE graphml><!-- c --><graphml xmlns=\"http://graphml.graphdrawing.org/xmlns\">",
        "<key id=\"d0\" for=\"edge\" attr.name=\"weight\" attr.type=\"double\"/><key id=\"d1\" for=\"node\" attr.name=\"color\"></key>",
        "<data key=\"d0\">7</data><graph id=\"G\" edgedefault=\"undirected\"><data key=\"d0\">8</data>",
        "<node id=\"a\"/><node id=\"b\"><data key=\"d1\">red</data><data key=\"d0\">3</data></node><node id=\"c\"/>",
        "<edge source=\"a\" target=\"b\"><data key=\"d0\">1.5</data></edge><edge source=\"b\" target=\"c\"/>",
        "<edge id=\"e2\" source=\"c\" target=\"a\"><data key=\"d0\"><![CDATA[2]]></data><?pi x?></edge>",
        "</graph></graphml>"
    ).to_string()));
    v.push(("B4", "<graphml><key id=\"weight\" for=\"edge\" attr.name=\"weight\"/><graph edgedefault=\"directed\"><node id=\"a\"/><node id=\"b\"/><edge source=\"a\" target=\"b\"><data key=\"weight\">2</data></edge></graph></graphml>".to_string()));
    v
}

const OVERWRITES: &[u8] = b"<>\"'&/= a0";

/// the k-th single-point fault of a document (None when exhausted); returns (label, bytes)
fn faults_at(doc: &[u8], i: usize) -> Vec<(String, Vec<u8>)> {
    let mut out = vec![];
    let mut d = doc.to_vec();
    d.remove(i);
    out.push((format!("del@{i}"), d));
    let mut d = doc.to_vec();
    d.insert(i, doc[i]);
    out.push((format!("dup@{i}"), d));
    out.push((format!("trunc@{i}"), doc[..i].to_vec()));
    for &b in OVERWRITES {
        if doc[i] != b {
            let mut d = doc.to_vec();
            d[i] = b;
            out.push((format!("ow@{i}:{}", b as char), d));
        }
    }
    out
}

fn apply_fault_label(doc: &[u8], label: &str) -> Option<Vec<u8>> {
    let (kind, rest) = label.split_once('@')?;
    let (pos, ch) = match rest.split_once(':') {
        Some((p, c)) => (p.parse::<usize>().ok()?, c.bytes().next()),
        None => (rest.parse::<usize>().ok()?, None),
    };
    if pos > doc.len() || (pos == doc.len() && kind != "trunc") {
        return None;
    }
    let mut d = doc.to_vec();
    match kind {
        "del" => {
            d.remove(pos);
        }
        "dup" => d.insert(pos, doc[pos]),
        "trunc" => d.truncate(pos),
        "ow" => d[pos] = ch?,
        _ => return None,
    }
    Some(d)
}

// ------------------------------------------------------------------ grammar

fn grammar_docs(tier: &str) -> Vec<String> {
    let keys: Vec<&str> = vec![
        "",
        "<key id=\"weight\" for=\"edge\" attr.name=\"weight\" attr.type=\"double\"/>",
        "<key id=\"d0\" for=\"edge\" attr.name=\"weight\"/>",
        "<key id=\"d0\" attr.name=\"weight\"/>",
        "<key for=\"edge\" attr.name=\"weight\"/>",
        "<key id=\"d0\" for=\"edge\" attr.name=\"weight\"></key>",
        "<key for=\"edge\" attr.name=\"weight\"></key>",
        "<key id=\"d0\" for=\"node\" attr.name=\"weight\"/>",
        "<key id=\"d0\" id=\"d1\" for=\"edge\" attr.name=\"weight\"/>",
    ];
    let graphs: Vec<&str> = vec!["<graph edgedefault=\"directed\">", "<graph edgedefault=\"undirected\">", "<graph>", "<graph edgedefault=\"bogus\">", "<graph edgedefault=\"directed\" edgedefault=\"undirected\">"];
    let node_v: Vec<&str> = vec!["<node id=\"a\"/>", "<node id=\"b\"/>", "<node/>", "<node id=\"a\" id=\"b\"/>", "<node id=\"&amp;\"/>", "<node id=\"&bogus;\"/>", "<node id=\"a\"></node>", "<node id=a/>"];
    let ends = ["a", "b", "zz"];
    let datas_full: Vec<String> = {
        let mut v = vec![];
        for key in ["weight", "d0", "other"] {
            for txt in ["1.5", "abc", "", " 2 ", "1e999", "&amp;", "&bogus;", "<x/>", "-0", "inf", "NaN"] {
                v.push(format!("<data key=\"{key}\">{txt}</data>"));
            }
        }
        v.push("<data>1</data>".into());
        v.push("<data key=\"weight\"/>".into());
        v
    };
    let mut edge_full: Vec<String> = vec![];
    let mut edge_small: Vec<String> = vec![];
    for s in ends.iter().map(|x| Some(*x)).chain([None]) {
        for t in ends.iter().map(|x| Some(*x)).chain([None]) {
            let at = format!("{}{}", s.map(|x| format!(" source=\"{x}\"")).unwrap_or_default(), t.map(|x| format!(" target=\"{x}\"")).unwrap_or_default());
            edge_full.push(format!("<edge{at}/>"));
            edge_full.push(format!("<edge{at}></edge>"));
            for d in &datas_full {
                edge_full.push(format!("<edge{at}>{d}</edge>"));
            }
            // several children: the weight data after / before another element that has its own end tag
            edge_full.push(format!("<edge{at}><data key=\"other\">x</data><data key=\"weight\">2.5</data></edge>"));
            edge_full.push(format!("<edge{at}><data key=\"weight\">2.5</data><data key=\"other\">x</data></edge>"));
            edge_full.push(format!("<edge{at}><desc>d</desc><data key=\"weight\">7</data></edge>"));
            edge_full.push(format!("<edge{at}><data key=\"other\"/><data key=\"weight\">0.125</data></edge>"));
            if s.is_some() && t.is_some() && s != Some("zz") {
                edge_small.push(format!("<edge{at}><data key=\"other\">x</data><data key=\"weight\">2.5</data></edge>"));
                edge_small.push(format!("<edge{at}/>"));
                edge_small.push(format!("<edge{at}><data key=\"weight\">1.5</data></edge>"));
                edge_small.push(format!("<edge{at}><data key=\"d0\">abc</data></edge>"));
            }
        }
    }
    edge_small.push("<edge source=\"a\"/>".into());
    let mut node_seqs: Vec<String> = vec![String::new()];
    for a in &node_v {
        node_seqs.push(a.to_string());
    }
    for a in &node_v[..if tier == "quick" { 3 } else { node_v.len() }] {
        for b in &node_v[..if tier == "quick" { 3 } else { node_v.len() }] {
            node_seqs.push(format!("{a}{b}"));
        }
    }
    let mut edge_seqs: Vec<String> = vec![String::new()];
    edge_seqs.extend(edge_full.iter().cloned());
    for a in &edge_small {
        for b in &edge_small {
            edge_seqs.push(format!("{a}{b}"));
        }
    }
    // trailing data at graph level after the edges (the reader's "last element" bookkeeping)
    let trailers = ["", "<data key=\"weight\">9</data>"];
    let mut docs = vec![];
    let key_sel: Vec<&str> = if tier == "quick" { keys[..5].to_vec() } else { keys.clone() };
    let graph_sel: Vec<&str> = if tier == "quick" { graphs[..3].to_vec() } else { graphs.clone() };
    for k in &key_sel {
        for g in &graph_sel {
            for (ni, ns) in node_seqs.iter().enumerate() {
                for (ei, es) in edge_seqs.iter().enumerate() {
                    // quick: thin the product (every node sequence with the first 40 edge sequences, every edge sequence with the first 4 node sequences)
                    if tier == "quick" && ni >= 4 && ei >= 40 {
                        continue;
                    }
                    for tr in trailers {
                        if !tr.is_empty() && ei % 7 != 1 {
                            continue;
                        }
                        docs.push(format!("<graphml>{k}{g}{ns}{es}{tr}</graph></graphml>"));
                    }
                }
            }
        }
    }
    docs
}

/// long, non-ASCII and multi-byte texts (for every byte offset some entry has a character straddling it)
fn text_menu() -> Vec<String> {
    let mut menu: Vec<String> = vec!["".into(), "abc".into(), "x".repeat(40), "x".repeat(300), "\u{e9}".into(), "\u{20ac}".into(), "\u{1d11e}".into(), "\u{e9}".repeat(40), "1.5\u{20ac}".into(), "\u{202e}abc".into(), "a\u{301}".repeat(30)];
    // numbers at and beyond the integer and float ranges, in the spellings a writer may produce
    for t in ["18446744073709551615", "18446744073709551616", "-9223372036854775809", "99999999999999999999999999", "340282366920938463463374607431768211456", "+1", "1.", ".5", "1e400", "-1e400", "0x10", "1_000", "1e-400", "00000000000000000000000000000001"] {
        menu.push(t.to_string());
    }
    menu.push("9".repeat(400));
    menu.push(format!("0.{}1", "0".repeat(400)));
    for k in 0..4 {
        menu.push(format!("{}{}", "a".repeat(k), "\u{20ac}".repeat(24)));
        menu.push(format!("{}{}", "1".repeat(k), "\u{1d11e}".repeat(20)));
    }
    menu
}

/// byte position right after the element name of the tag that ends at `tag_end`
fn tag_name_end(base: &str, tag_end: usize) -> Option<usize> {
    let bytes = base.as_bytes();
    let start = (0..tag_end).rev().find(|&i| bytes[i] == b'<')?;
    let mut j = start + 1;
    while j < tag_end && !bytes[j].is_ascii_whitespace() && bytes[j] != b'/' && bytes[j] != b'>' {
        j += 1;
    }
    Some(j)
}

/// positions just before the '>' or '/>' of every start / empty tag
fn tag_ends(base: &str) -> Vec<usize> {
    let bytes = base.as_bytes();
    let mut tag_ends: Vec<usize> = vec![];
    let mut i = 0;
    while i < bytes.len() {
        if bytes[i] == b'<' && i + 1 < bytes.len() && bytes[i + 1] != b'/' {
            let mut j = i;
            while j < bytes.len() && bytes[j] != b'>' {
                j += 1;
            }
            let end = if j > 0 && bytes[j - 1] == b'/' { j - 1 } else { j };
            tag_ends.push(end);
            i = j;
        }
        i += 1;
    }
    tag_ends
}

/// byte ranges of the attribute values and of the non-blank text nodes of a document
fn value_spans(base: &str) -> Vec<(usize, usize)> {
    let bytes = base.as_bytes();
    let mut spans: Vec<(usize, usize)> = vec![];
    let mut i = 0;
    let mut in_tag = false;
    while i < bytes.len() {
        match bytes[i] {
            b'<' => in_tag = true,
            b'>' => {
                in_tag = false;
                let mut j = i + 1;
                while j < bytes.len() && bytes[j] != b'<' {
                    j += 1;
                }
                if j > i + 1 && base[i + 1..j].trim() != "" {
                    spans.push((i + 1, j));
                }
            }
            b'"' if in_tag => {
                let mut j = i + 1;
                while j < bytes.len() && bytes[j] != b'"' {
                    j += 1;
                }
                spans.push((i + 1, j));
                i = j;
            }
            _ => {}
        }
        i += 1;
    }
    spans
}

pub fn stressors() -> Vec<(String, String)> {
    let depth = 100_000;
    let chain = format!("{}{}", "<a>".repeat(depth), "</a>".repeat(depth));
    let wrap = |inner: &str| format!("<graphml><key id=\"weight\" for=\"edge\" attr.name=\"weight\"/><graph edgedefault=\"directed\"><node id=\"a\"/><node id=\"b\"/>{inner}</graph></graphml>");
    let long_attr = format!("<graphml><graph edgedefault=\"directed\"><node id=\"{}\"/></graph></graphml>", "x".repeat(1 << 20));
    let many = format!("<graphml><graph edgedefault=\"undirected\">{}</graph></graphml>", (0..5000).map(|i| format!("<node id=\"n{i}\"/>")).collect::<String>());
    vec![
        ("stress:deep_top".into(), chain.clone()),
        ("stress:deep_in_graph".into(), wrap(&chain)),
        ("stress:deep_in_node".into(), wrap(&format!("<node id=\"c\">{chain}</node>"))),
        ("stress:deep_in_edge".into(), wrap(&format!("<edge source=\"a\" target=\"b\">{chain}</edge>"))),
        ("stress:deep_in_weight_data".into(), wrap(&format!("<edge source=\"a\" target=\"b\"><data key=\"weight\">{chain}</data></edge>"))),
        ("stress:deep_in_other_data".into(), wrap(&format!("<edge source=\"a\" target=\"b\"><data key=\"other\">{chain}</data></edge>"))),
        ("stress:deep_in_key".into(), format!("<graphml><key id=\"weight\" for=\"edge\" attr.name=\"weight\">{chain}</key><graph edgedefault=\"directed\"/></graphml>")),
        ("stress:deep_graphs".into(), format!("<graphml>{}{}</graphml>", "<graph edgedefault=\"directed\">".repeat(20_000), "</graph>".repeat(20_000))),
        ("stress:long_weight_text".into(), wrap(&format!("<edge source=\"a\" target=\"b\"><data key=\"weight\">{}</data></edge>", "1".repeat(1 << 20)))),
        ("stress:long_attr".into(), long_attr),
        ("stress:many_nodes".into(), many),
        ("stress:empty".into(), String::new()),
        ("stress:nul".into(), "\0\0\0".into()),
        ("stress:bom".into(), "\u{feff}<graphml/>".into()),
    ]
}

/// child-process entry: one stressor document, so that a stack overflow / abort of the reader kills
/// only the child and is attributed to the document (exit 0 = fine, 3 = the oracle found a violation)
pub fn one(label: &str) -> i32 {
    let rec = Recorder::new("C19", &[]);
    let mut c = Counters::default();
    match stressors().into_iter().find(|s| s.0 == label) {
        None => 2,
        Some((l, doc)) => {
            // the reader is called on a 2 MiB stack, the default of a spawned thread
            let h = std::thread::Builder::new().stack_size(2 << 20).spawn(move || {
                let mut c2 = Counters::default();
                let rec2 = Recorder::new("C19", &[]);
                check_doc(&doc, &l, SPEC_MENU[0], &rec2, &mut c2);
                rec2.has_any()
            });
            let bad = h.map(|h| h.join().unwrap_or(true)).unwrap_or(true);
            let _ = (&rec, &mut c);
            if bad {
                3
            } else {
                0
            }
        }
    }
}

const SPEC_MENU: [usize; 4] = [48 + 0, 0 + 36 + 8 + 0, 95, 48 + 24 + 12 + 2]; // see spec_from_index: directed strict; undirected multi loops; permissive drop; mixed

pub fn run(tier: &str, rec: &Recorder) -> RunOutput {
    let start = Instant::now();
    let mut out = RunOutput::new("fault_enumeration");
    let deadline = start + Duration::from_secs_f64(wall_cap_s(tier));
    let wd = Watchdog::start("C19", 20.0);
    let total = Mutex::new(Counters::default());
    let capped = std::sync::atomic::AtomicBool::new(false);
    let bs = bases();
    // --- stage 1: every single-point byte fault of every base
    let mut jobs: Vec<(usize, usize)> = vec![];
    for (bi, (_, doc)) in bs.iter().enumerate() {
        for i in 0..doc.len() {
            jobs.push((bi, i));
        }
    }
    let njobs = jobs.len();
    par_for((njobs + 63) / 64, |ch| {
        let mut c = Counters::default();
        for &(bi, i) in &jobs[ch * 64..((ch + 1) * 64).min(njobs)] {
            let (bname, doc) = &bs[bi];
            for (label, bytes) in faults_at(doc.as_bytes(), i) {
                let s = match String::from_utf8(bytes) {
                    Ok(s) => s,
                    Err(_) => {
                        c.inc("faulted_documents_not_utf8_skipped");
                        continue;
                    }
                };
                let case = format!("d:{bname}:{label}");
                wd.enter(&case);
                c.inc("single_faults");
                for &sp in &SPEC_MENU[..if tier == "quick" { 2 } else { 4 }] {
                    check_doc(&s, &case, sp, rec, &mut c);
                }
                wd.leave();
            }
        }
        total.lock().unwrap().merge(&c);
    });
    // the unfaulted bases and stressors
    {
        let mut c = Counters::default();
        for (bname, doc) in &bs {
            for sp in SPEC_MENU {
                check_doc(doc, &format!("d:{bname}:none"), sp, rec, &mut c);
            }
        }
        let exe = std::env::current_exe().expect("current_exe");
        for (label, doc) in stressors() {
            c.inc("stressors");
            match std::process::Command::new(&exe).args(["c19one", &label]).output() {
                Err(e) => eprintln!("MACHINERY-ERROR: cannot spawn the stressor child: {e}"),
                Ok(o) => match o.status.code() {
                    Some(0) => {}
                    Some(3) => {
                        // the oracle found something and the reader did not crash: record the details in-process
                        wd.enter(&label);
                        check_doc(&doc, &label, SPEC_MENU[0], rec, &mut c);
                        wd.leave();
                    }
                    other => {
                        let err = String::from_utf8_lossy(&o.stderr);
                        rec.record(Violation::new("no_stack_overflow_or_abort", "read_graphml_string", label.clone(), format!("the reader killed the process on stressor document {label} ({} bytes): exit status {other:?} / {:?}; stderr: {}", doc.len(), o.status, err.lines().last().unwrap_or(""))));
                    }
                },
            }
        }
        total.lock().unwrap().merge(&c);
    }
    // --- stage 1b: every attribute the GraphML schema defines (and a few it does not), with extreme values,
    //     injected into every start / empty tag of the minimal base document
    {
        let mut c = Counters::default();
        let base = bs[3].1.clone();
        let attrs = [
            "id", "edgedefault", "parse.nodes", "parse.edges", "parse.maxindegree", "parse.maxoutdegree", "parse.nodeids", "parse.edgeids", "parse.order", "parse.indegree", "parse.outdegree", "source",
            "target", "directed", "sourceport", "targetport", "for", "attr.name", "attr.type", "key", "xmlns", "xml:lang", "weight", "count", "size", "capacity",
        ];
        let values = ["", "0", "-1", "1", "18446744073709551615", "4611686018427387903", "9223372036854775808", "99999999999999999999999999", "1e999", "NaN", "true", "a", "&amp;", " "];
        let tag_ends = tag_ends(&base);
        for (ti, &pos) in tag_ends.iter().enumerate() {
            for a in attrs {
                for v in values {
                    let doc = format!("{} {a}=\"{v}\"{}", &base[..pos], &base[pos..]);
                    let case = format!("attr:{ti}:{a}:{v}");
                    wd.enter(&case);
                    c.inc("attribute_injections");
                    check_doc(&doc, &case, SPEC_MENU[0], rec, &mut c);
                    wd.leave();
                    // ... and as the FIRST attribute (a duplicate then precedes the original)
                    if let Some(sp) = tag_name_end(&base, pos) {
                        let doc = format!("{} {a}=\"{v}\"{}", &base[..sp], &base[sp..]);
                        let case = format!("attrf:{ti}:{a}:{v}");
                        wd.enter(&case);
                        c.inc("attribute_injections");
                        check_doc(&doc, &case, SPEC_MENU[0], rec, &mut c);
                        wd.leave();
                    }
                }
            }
        }
        total.lock().unwrap().merge(&c);
    }
    // --- stage 1c: every attribute value and every text node of the hand-written bases replaced by every text of a
    //     menu with long, non-ASCII and multi-byte strings (every byte offset falls inside a character for some entry)
    {
        let mut c = Counters::default();
        let menu = text_menu();
        for (bi, base) in [(2usize, bs[2].1.clone()), (3usize, bs[3].1.clone())] {
            let spans = value_spans(&base);
            for (si, &(a, b)) in spans.iter().enumerate() {
                for (mi, txt) in menu.iter().enumerate() {
                    let doc = format!("{}{}{}", &base[..a], txt, &base[b..]);
                    let case = format!("text:{bi}:{si}:{mi}");
                    wd.enter(&case);
                    c.inc("text_replacements");
                    check_doc(&doc, &case, SPEC_MENU[0], rec, &mut c);
                    wd.leave();
                }
            }
        }
        total.lock().unwrap().merge(&c);
    }
    // --- stage 2: pairs of byte faults on the short base B4
    {
        let doc = bs[3].1.as_bytes().to_vec();
        let n = doc.len();
        let stride = if tier == "quick" { 7 } else { 1 };
        par_for(n, |i| {
            if Instant::now() > deadline {
                capped.store(true, std::sync::atomic::Ordering::Relaxed);
                return;
            }
            let mut c = Counters::default();
            for (l1, d1) in faults_at(&doc, i) {
                let mut j = i;
                while j < d1.len() {
                    for (l2, d2) in faults_at(&d1, j) {
                        if let Ok(s) = String::from_utf8(d2) {
                            let case = format!("d:B4:{l1}+{l2}");
                            wd.enter(&case);
                            c.inc("double_faults");
                            check_doc(&s, &case, SPEC_MENU[0], rec, &mut c);
                            wd.leave();
                        }
                    }
                    j += stride;
                }
            }
            total.lock().unwrap().merge(&c);
        });
    }
    // --- stage 3: grammar
    let docs = grammar_docs(tier);
    let nd = docs.len();
    par_for((nd + 255) / 256, |ch| {
        if Instant::now() > deadline {
            capped.store(true, std::sync::atomic::Ordering::Relaxed);
            return;
        }
        let mut c = Counters::default();
        for gi in ch * 256..((ch + 1) * 256).min(nd) {
            let case = format!("gr:{tier}:{gi}");
            wd.enter(&case);
            c.inc("grammar_documents");
            for &sp in &SPEC_MENU[..2] {
                check_doc(&docs[gi], &case, sp, rec, &mut c);
            }
            wd.leave();
        }
        total.lock().unwrap().merge(&c);
    });
    let t = total.into_inner().unwrap();
    for (k, v) in &t.0 {
        out.add(k, *v);
    }
    out.set("evaluations", out.get("documents_read"));
    out.set("distinct_nontrivial", out.get("single_faults") + out.get("double_faults") + out.get("grammar_documents"));
    out.set("exhaustive", !capped.load(std::sync::atomic::Ordering::Relaxed));
    out.set("base_documents", bs.iter().map(|(n, d)| serde_json::json!({"name": n, "bytes": d.len()})).collect::<Vec<_>>());
    out.sample(serde_json::json!({"case": "d:B4:none", "document": bs[3].1}));
    out.sample(serde_json::json!({"case": "gr:0", "document": docs.get(nd / 3).cloned().unwrap_or_default()}));
    out.set("rule", "bases (writer output for a weighted digraph, writer output with special-character names, a hand-written document with every construct the reader looks at, a 190-byte minimal document) x EVERY byte position x {delete, duplicate, truncate, overwrite with each of < > \" ' & / = space a 0}; every PAIR of such faults on the minimal base; grammar: graphml(key variants)(graph variants)(0..2 node variants)(0..2 edge variants incl. data children with text menus)(optional trailing data); stressors (10^4 nested elements, 1 MB attribute, 5000 nodes, empty, NULs, BOM); each under 2-4 spec combinations. Oracle: no panic/overflow/hang; Ok(g) on a document the harness's own tokenisation interprets with exactly one start-form graph => g's directedness is the declared one and nodes/edges (and weights of start-form edges with a direct data child) equal the C01 reference model applied to the document's elements under the supplied specs. distinct_nontrivial = faulted / generated documents");
    for k in ["single_faults", "double_faults", "grammar_documents", "reader_returned_ok", "reader_returned_err", "ok_documents_compared_with_reference", "ok_documents_with_weights_compared"] {
        out.require_nonzero(k);
    }
    out.assumptions = vec!["quick-xml (used directly by the harness for its own tokenisation) is trusted".into(), "faulted documents that are no longer valid UTF-8 cannot be passed as &str and are skipped (counted)".into()];
    out
}

pub fn replay(case: &str, rec: &Recorder) -> bool {
    let (main, spec) = match case.rsplit_once("|spec=") {
        Some((m, s)) => (m, s.parse::<usize>().unwrap_or(SPEC_MENU[0])),
        None => (case, SPEC_MENU[0]),
    };
    let doc: Option<String> = if let Some(rest) = main.strip_prefix("d:") {
        let (bname, labels) = rest.split_once(':').unwrap_or((rest, "none"));
        bases().into_iter().find(|b| b.0 == bname).and_then(|(_, d)| {
            let mut bytes = d.into_bytes();
            if labels != "none" {
                for l in labels.split('+') {
                    bytes = apply_fault_label(&bytes, l)?;
                }
            }
            String::from_utf8(bytes).ok()
        })
    } else if let Some(rest) = main.strip_prefix("text:") {
        let q: Vec<usize> = rest.split(':').filter_map(|x| x.parse().ok()).collect();
        if q.len() == 3 {
            let base = bases()[q[0]].1.clone();
            let spans = value_spans(&base);
            let menu = text_menu();
            match (spans.get(q[1]), menu.get(q[2])) {
                (Some(&(a, b)), Some(txt)) => Some(format!("{}{}{}", &base[..a], txt, &base[b..])),
                _ => None,
            }
        } else {
            None
        }
    } else if let Some(rest) = main.strip_prefix("attrf:") {
        let mut it = rest.splitn(3, ':');
        let ti: usize = it.next().and_then(|x| x.parse().ok()).unwrap_or(0);
        let a = it.next().unwrap_or("");
        let v = it.next().unwrap_or("");
        let base = bases()[3].1.clone();
        tag_ends(&base).get(ti).and_then(|&pos| tag_name_end(&base, pos)).map(|sp| format!("{} {a}=\"{v}\"{}", &base[..sp], &base[sp..]))
    } else if let Some(rest) = main.strip_prefix("attr:") {
        let mut it = rest.splitn(3, ':');
        let ti: usize = it.next().and_then(|x| x.parse().ok()).unwrap_or(0);
        let a = it.next().unwrap_or("");
        let v = it.next().unwrap_or("");
        let base = bases()[3].1.clone();
        tag_ends(&base).get(ti).map(|&pos| format!("{} {a}=\"{v}\"{}", &base[..pos], &base[pos..]))
    } else if let Some(rest) = main.strip_prefix("gr:") {
        let (tier, gi) = rest.split_once(':').unwrap_or(("quick", "0"));
        grammar_docs(tier).get(gi.parse::<usize>().unwrap_or(0)).cloned()
    } else {
        stressors().into_iter().find(|s| s.0 == main).map(|s| s.1)
    };
    match doc {
        None => false,
        Some(d) => {
            for _ in 0..2 {
                let mut c = Counters::default();
                println!("document: {}", if d.len() > 600 { &d[..d.char_indices().nth(600).map(|x| x.0).unwrap_or(d.len())] } else { &d });
                check_doc(&d, main, spec, rec, &mut c);
            }
            rec.has_any()
        }
    }
}
