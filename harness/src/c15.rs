//! C15 — derived graphs (subgraph, reverse, reweight, collapse) are exactly as specified.
use crate::c01::public_view_check;
use crate::c02::{check_indexes, check_queries, Base, ABSENT};
use crate::c03::check_traversal;
use crate::common::*;
use crate::e1::*;
use crate::model::*;
use std::time::{Duration, Instant};

pub struct C15Oracle {
    pub deep: bool,
}

fn canon_edges(b: &Base) -> Vec<SEdge> {
    let mut v: Vec<SEdge> = b.edges.iter().map(|e| if !b.directed && e.0 > e.1 { (e.1, e.0, e.2, e.3) } else { *e }).collect();
    v.sort();
    v
}

/// abstract state of a real graph as a reference-model value (per-pair order preserved)
fn ref_of(g: &G) -> RefGraph {
    let mut r = RefGraph::new(g.specs.clone());
    r.nodes = real_nodes(g);
    r.edges = g.get_all_edges().iter().map(|e| EdgeSpec { u: e.u, v: e.v, w: wbits(e.weight), attr: e.attributes }).collect();
    r
}

/// the derived graph must itself satisfy the C02 and C03 state oracles, and one further basic
/// operation on it must agree with the C01 reference model started from its abstract state
fn check_result_graph(label: &str, mk: &dyn Fn() -> Option<G>, alphabet: &Alphabet, deep: bool, fail: &mut dyn FnMut(&str, &str, String)) {
    let g = match mk() {
        Some(g) => g,
        None => return,
    };
    let mut q: Vec<N> = alphabet.names.clone();
    q.push(ABSENT);
    let call = format!("Graph::{label}");
    check_queries(&g, &q, &mut |cl, ca, d, _| fail(&format!("result_c02_{cl}"), &call, format!("on the result of {label}: {ca}: {d}")));
    let sn = snap(&g);
    check_indexes(&sn, &g.specs, &mut |cl, _ca, d, _| fail(&format!("result_c02_{cl}"), &call, format!("on the result of {label}: {d}")));
    // C03 is stated for uniformly weighted or uniformly unweighted graphs only
    let rb = Base::of(&g);
    let nan = rb.edges.iter().filter(|e| e.2 == NAN_BITS).count();
    if nan == 0 || nan == rb.edges.len() {
        check_traversal(&rb, &sn, &mut |cl, _ca, d| fail(&format!("result_c03_{cl}"), &call, format!("on the result of {label}: {d}")));
    }
    if !deep {
        return;
    }
    let r0 = ref_of(&g);
    for op in &alphabet.ops[..alphabet.batch_from] {
        let mut g2 = match mk() {
            Some(g) => g,
            None => return,
        };
        let before = snap(&g2);
        let real = op.apply_real(&mut g2);
        let mut r = r0.clone();
        let exp = op.apply_ref(&mut r);
        if real != exp {
            fail("result_c01_result_kind", &call, format!("after {label}, {}: expected {exp:?} got {real:?}", op.short()));
        }
        public_view_check(&g2, &r, &alphabet.names, |cl, _ca, d| fail(&format!("result_c01_{cl}"), &call, format!("after {label}, {}: {d}", op.short())));
        if real != ResKind::Ok && snap(&g2) != before {
            fail("result_c01_err_unchanged", &call, format!("after {label}, {} returned {real:?} but changed the graph", op.short()));
        }
    }
}

pub fn check_derived(g: &G, alphabet: &Alphabet, deep: bool, c: &mut Counters, fail: &mut dyn FnMut(&str, &str, String)) {
    let b = Base::of(g);
    let before = snap(g);
    let mut q: Vec<N> = alphabet.names.clone();
    q.push(ABSENT);
    let nq = q.len();
    // ---- get_subgraph
    for mask in 0..(1usize << nq) {
        let s: Vec<N> = (0..nq).filter(|i| mask >> i & 1 == 1).map(|i| q[i]).collect();
        let sub = g.get_subgraph(&s);
        c.inc("derived_graphs");
        let sb = Base::of(&sub);
        let exp_nodes: Vec<(N, Option<A>)> = b.nodes.iter().filter(|x| s.contains(&x.0)).cloned().collect();
        if sb.nodes != exp_nodes {
            fail("subgraph_nodes", "Graph::get_subgraph", format!("get_subgraph({s:?}) nodes {:?}, expected {exp_nodes:?}", sb.nodes));
        }
        let mut exp_edges: Vec<SEdge> = canon_edges(&b).into_iter().filter(|e| s.contains(&e.0) && s.contains(&e.1)).collect();
        exp_edges.sort();
        if canon_edges(&sb) != exp_edges {
            fail("subgraph_edges", "Graph::get_subgraph", format!("get_subgraph({s:?}) edges {:?}, expected {exp_edges:?}", canon_edges(&sb)));
        }
        if sub.specs.directed != b.directed || sub.specs.multi_edges != b.multi {
            fail("subgraph_kind", "Graph::get_subgraph", "result has a different kind".into());
        }
        if exp_edges.len() < b.edges.len() && !exp_edges.is_empty() {
            c.inc("proper_subgraphs_with_edges");
        }
        let full_or_first_proper = mask == (1 << nq) - 1 || mask == 0b011 || mask == 0b001;
        check_result_graph("get_subgraph", &|| Some(g.get_subgraph(&s)), alphabet, deep && full_or_first_proper, fail);
    }
    // ---- get_subgraph with name LISTS (repetition and order are part of a valid call)
    for &x in &alphabet.names {
        for &y in &alphabet.names {
            // ... and an unknown name may stand anywhere in the list (first, in the middle, last)
            for s in [vec![x, y, x], vec![y, x, x], vec![x, x], vec![ABSENT, x, y], vec![x, ABSENT, y], vec![x, y, ABSENT], vec![ABSENT, ABSENT, x]] {
                let sub = g.get_subgraph(&s);
                c.inc("derived_graphs");
                c.inc("subgraph_lists_with_repeats");
                let sb = Base::of(&sub);
                let exp_nodes: Vec<(N, Option<A>)> = b.nodes.iter().filter(|n| s.contains(&n.0)).cloned().collect();
                let mut exp_edges: Vec<SEdge> = canon_edges(&b).into_iter().filter(|e| s.contains(&e.0) && s.contains(&e.1)).collect();
                exp_edges.sort();
                if sb.nodes != exp_nodes {
                    fail("subgraph_nodes", "Graph::get_subgraph", format!("get_subgraph({s:?}) nodes {:?}, expected {exp_nodes:?}", sb.nodes));
                }
                if canon_edges(&sb) != exp_edges {
                    fail("subgraph_edges", "Graph::get_subgraph", format!("get_subgraph({s:?}) edges {:?}, expected {exp_edges:?}", canon_edges(&sb)));
                }
            }
        }
    }
    // ---- reverse
    match g.reverse() {
        Err(e) => {
            if b.directed || format!("{:?}", e.kind) != "WrongMethod" {
                fail("reverse", "Graph::reverse", format!("Err({:?}) on a {} graph", e.kind, if b.directed { "directed" } else { "undirected" }));
            }
        }
        Ok(rg) => {
            c.inc("derived_graphs");
            if !b.directed {
                fail("kind_guard", "Graph::reverse", "undirected graph: expected WrongMethod, got Ok".into());
            } else {
                let rb = Base::of(&rg);
                if rb.nodes != b.nodes {
                    fail("reverse_nodes", "Graph::reverse", format!("nodes {:?}, expected {:?}", rb.nodes, b.nodes));
                }
                let mut exp: Vec<SEdge> = b.edges.iter().map(|e| (e.1, e.0, e.2, e.3)).collect();
                exp.sort();
                if canon_edges(&rb) != exp {
                    fail("reverse_edges", "Graph::reverse", format!("edges {:?}, expected {exp:?}", canon_edges(&rb)));
                }
                // per-pair order of parallel edges is kept
                if b.multi {
                    for &u in &alphabet.names {
                        for &v in &alphabet.names {
                            let a: Vec<(u64, Option<A>)> = b.pair(u, v).iter().map(|e| (e.2, e.3)).collect();
                            let z: Vec<(u64, Option<A>)> = rb.pair(v, u).iter().map(|e| (e.2, e.3)).collect();
                            if a != z {
                                fail("reverse_parallel_order", "Graph::reverse", format!("parallel edges {u}->{v} {a:?} became {v}->{u} {z:?}"));
                            }
                        }
                    }
                }
                match rg.reverse() {
                    Ok(rr) => {
                        let rrb = Base::of(&rr);
                        if rrb.nodes != b.nodes || canon_edges(&rrb) != canon_edges(&b) {
                            fail("reverse_twice", "Graph::reverse", format!("reverse().reverse() gives nodes {:?} edges {:?}", rrb.nodes, canon_edges(&rrb)));
                        }
                    }
                    Err(e) => fail("reverse_twice", "Graph::reverse", format!("second reverse: Err({:?})", e.kind)),
                }
                check_result_graph("reverse", &|| g.reverse().ok(), alphabet, deep, fail);
            }
        }
    }
    // ---- set_all_edge_weights
    for w in [1.0, 5.0, f64::NAN] {
        let rg = g.set_all_edge_weights(w);
        c.inc("derived_graphs");
        let rb = Base::of(&rg);
        if rb.nodes != b.nodes {
            fail("reweight_nodes", "Graph::set_all_edge_weights", format!("nodes {:?}, expected {:?}", rb.nodes, b.nodes));
        }
        let mut exp: Vec<SEdge> = canon_edges(&b).into_iter().map(|e| (e.0, e.1, wbits(w), e.3)).collect();
        exp.sort();
        if canon_edges(&rb) != exp {
            fail("reweight_edges", "Graph::set_all_edge_weights", format!("set_all_edge_weights({w}) edges {:?}, expected {exp:?}", canon_edges(&rb)));
        }
        if w == 5.0 {
            check_result_graph("set_all_edge_weights", &|| Some(g.set_all_edge_weights(5.0)), alphabet, deep, fail);
        }
    }
    // ---- to_single_edges
    match g.to_single_edges() {
        Err(e) => {
            if b.multi || format!("{:?}", e.kind) != "WrongMethod" {
                fail("collapse", "Graph::to_single_edges", format!("Err({:?}) on a {} graph", e.kind, if b.multi { "multi-edge" } else { "single-edge" }));
            }
        }
        Ok(sg) => {
            c.inc("derived_graphs");
            if !b.multi {
                fail("kind_guard", "Graph::to_single_edges", "single-edge graph: expected WrongMethod, got Ok".into());
            } else {
                let sb = Base::of(&sg);
                if sb.nodes != b.nodes {
                    fail("collapse_nodes", "Graph::to_single_edges", format!("nodes {:?}, expected {:?}", sb.nodes, b.nodes));
                }
                if sg.specs.multi_edges {
                    fail("collapse_kind", "Graph::to_single_edges", "result is still a multi-edge graph".into());
                }
                // groups in stored order
                let mut groups: Vec<((N, N), f64)> = vec![];
                for e in &b.edges {
                    let k = if !b.directed && e.0 > e.1 { (e.1, e.0) } else { (e.0, e.1) };
                    match groups.iter_mut().find(|x| x.0 == k) {
                        Some(x) => x.1 += f64::from_bits(e.2),
                        None => groups.push((k, f64::from_bits(e.2))),
                    }
                }
                let mut exp: Vec<(N, N, u64)> = groups.iter().map(|(k, w)| (k.0, k.1, wbits(*w))).collect();
                exp.sort();
                let mut got: Vec<(N, N, u64)> = canon_edges(&sb).iter().map(|e| (e.0, e.1, e.2)).collect();
                got.sort();
                if got != exp {
                    fail("collapse_edges", "Graph::to_single_edges", format!("edges {:?}, expected one edge per group with the group's sum {:?}", got.iter().map(|e| (e.0, e.1, wstr(e.2))).collect::<Vec<_>>(), exp.iter().map(|e| (e.0, e.1, wstr(e.2))).collect::<Vec<_>>()));
                }
                if groups.len() < b.edges.len() {
                    c.inc("collapses_with_parallel_groups");
                }
                check_result_graph("to_single_edges", &|| g.to_single_edges().ok(), alphabet, deep, fail);
            }
        }
    }
    // ---- the source graph is untouched
    let after = snap(g);
    if after != before {
        fail("source_unchanged", "derived-graph functions", format!("the source graph changed: {}", before.diff(&after)));
    }
}

impl E1Oracle for C15Oracle {
    fn warmup(&mut self, g: &G, alphabet: &Alphabet) {
        let _ = g.get_subgraph(&alphabet.names);
        let _ = g.reverse();
        let _ = g.set_all_edge_weights(5.0);
        let _ = g.to_single_edges();
        let _ = (g.get_degree_for_all_nodes(), g.number_of_edges());
    }
    fn fingerprint(&mut self, g: &G, alphabet: &Alphabet) -> u64 {
        let mut h = 0u64;
        let sub = g.get_subgraph(&alphabet.names);
        let mut se: Vec<(N, N, u64, Option<A>)> = sub.get_all_edges().iter().map(|e| (e.u, e.v, wbits(e.weight), e.attributes)).collect();
        se.sort();
        for e in &se {
            fp_str(&mut h, e.0);
            fp_str(&mut h, e.1);
            fp_mix(&mut h, e.2);
            fp_mix(&mut h, e.3.map_or(0, |x| x as u64 + 1));
        }
        if let Ok(r) = g.reverse() {
            fp_mix(&mut h, r.size(true).to_bits());
        }
        fp_mix(&mut h, sub.get_all_edges().len() as u64);
        fp_mix(&mut h, sub.number_of_nodes() as u64);
        fp_mix(&mut h, g.reverse().map_or(u64::MAX, |r| r.get_all_edges().len() as u64));
        fp_mix(&mut h, g.to_single_edges().map_or(u64::MAX, |r| r.get_all_edges().len() as u64));
        fp_mix(&mut h, g.set_all_edge_weights(5.0).size(true).to_bits());
        h
    }
    fn state(&mut self, s: &StateCtx, rec: &Recorder, c: &mut Counters) {
        c.inc("states_checked");
        let tags = crate::c09::c09_tags(&Base::of(s.g));
        let mut fail = |clause: &str, call: &str, detail: String| {
            let ops: Vec<String> = ops_of(s.alphabet, s.hist).iter().map(|o| o.short()).collect();
            rec.record(
                Violation::new(clause, call, case_id(s.spec_idx, s.alphabet.name, s.hist, ""), format!("specs: {}\nhistory: {}\nnodes: {:?}\nstored edges: {:?}\n{}", spec_str(s.specs), ops.join(" ; "), real_nodes(s.g), real_edges_raw(s.g).iter().map(|e| (e.0, e.1, wstr(e.2), e.3)).collect::<Vec<_>>(), detail))
                    .with_tags(tags.clone())
                    .with_snippet(history_snippet("replay", s.specs, &ops_of(s.alphabet, s.hist), &format!("    // {call}: {}\n", detail.replace('\n', " ")))),
            );
        };
        let deep = self.deep;
        let mut cc = Counters::default();
        let r = guarded(|| check_derived(s.g, s.alphabet, deep, &mut cc, &mut fail));
        c.merge(&cc);
        if let Err(pi) = r {
            rec.record(Violation::new("no_panic", "derived-graph functions", case_id(s.spec_idx, s.alphabet.name, s.hist, ""), pi.msg.clone()).with_panic(pi).with_tags(tags.clone()).with_snippet(history_snippet("replay", s.specs, &ops_of(s.alphabet, s.hist), "    // then get_subgraph / reverse / set_all_edge_weights / to_single_edges\n")));
        }
    }
}

/// tall parallel groups: one pair (or one node's self-loop) carrying k parallel edges for EVERY k in 1..=TALL_MAX, beside a
/// second pair with two; integer weights, so every summation order gives the same exact sum.  E1 reaches groups of
/// at most `depth` edges; this stage is the group-size axis on its own.
const TALL_MAX: usize = 24;
fn tall_graph(directed: bool, looped: bool, k: usize) -> G {
    let base = if directed { graphrs::GraphSpecs::directed_create_missing() } else { graphrs::GraphSpecs::undirected_create_missing() };
    let mut g = G::new(graphrs::GraphSpecs { multi_edges: true, self_loops: true, ..base });
    let _ = g.add_edge(graphrs::Edge::with_weight("b", "c", 1.0));
    for i in 0..k {
        let _ = g.add_edge(graphrs::Edge::with_weight("a", if looped { "a" } else { "b" }, (i + 1) as f64));
    }
    let _ = g.add_edge(graphrs::Edge::with_weight("b", "c", 2.0));
    g
}
fn tall_stage(rec: &Recorder, c: &mut Counters, only: Option<&str>) {
    let alphabet = alphabet_by_name("mix3");
    for directed in [true, false] {
        for looped in [false, true] {
            for k in 1..=TALL_MAX {
                let case = format!("tall:{}:{}:{k}", directed as u8, looped as u8);
                if only.map_or(false, |o| o != case) {
                    continue;
                }
                c.inc("tall_group_graphs");
                let g = tall_graph(directed, looped, k);
                let mut fail = |clause: &str, call: &str, detail: String| {
                    rec.record(Violation::new(clause, call, case.clone(), format!("{} multigraph, {k} parallel edges a-{} with weights 1..={k}, two edges b-c (weights 1, 2)\n{detail}", if directed { "directed" } else { "undirected" }, if looped { "a" } else { "b" })).with_tags(vec!["tall_group".into()]));
                };
                let mut cc = Counters::default();
                if let Err(pi) = guarded(|| check_derived(&g, &alphabet, false, &mut cc, &mut fail)) {
                    rec.record(Violation::new("no_panic", "derived-graph call", case.clone(), pi.msg.clone()).with_panic(pi));
                }
            }
        }
    }
}

pub fn run(tier: &str, rec: &Recorder) -> RunOutput {
    let start = Instant::now();
    let mut out = RunOutput::new("model_checking");
    let cap = wall_cap_s(tier);
    // (alphabet, depth, deep = one further C01 step on every result)
    let stages: Vec<(&'static str, usize, bool)> = if tier == "quick" { vec![("mix2", 3, true), ("mix3", 2, false), ("mixn3", 3, false), ("sliceWA2", 3, false)] } else { vec![("mix2", 4, true), ("mix2", 5, false), ("mix3", 3, true), ("mix3", 4, false), ("mixn3", 4, false), ("sliceWA2", 5, false), ("mix2@alias", 4, false)] };
    let n_st = stages.len() as f64;
    let mut notes = vec![];
    let mut ex = true;
    for (alpha, depth, deep) in stages {
        let p = E1Params {
            alphabet: alpha,
            depth,
            batch_depth: 0,
            specs: all_specs_costly_first(),
            max_states_per_spec: 60_000_000,
            deadline: start + Duration::from_secs_f64(cap * (notes.len() as f64 + 1.0) / n_st),
        };
        let r = explore(&p, rec, || C15Oracle { deep });
        notes.push(serde_json::json!({"alphabet": alpha, "deep_one_more_step": deep, "depth": depth, "states": r.states, "transitions": r.transitions, "depth_completed_all_specs": r.max_depth_completed, "capped": r.capped}));
        fill_e1_coverage(&mut out, &r, &p);
        ex &= !r.capped;
    }
    {
        let mut c = Counters::default();
        tall_stage(rec, &mut c, None);
        for (k, v) in &c.0 {
            out.add(k, *v);
        }
    }
    out.set("exhaustive", ex);
    out.set("stages", serde_json::Value::Array(notes));
    out.set("traces_validated_against_impl", out.get("derived_graphs"));
    out.set("evaluations", out.get("derived_graphs"));
    out.set("distinct_nontrivial", out.get("states"));
    out.set("rule", "every distinct state reached by E1 histories, all 96 GraphSpecs; per state: get_subgraph for all 16 subsets of {names}+{absent}, reverse (and twice), set_all_edge_weights for w in {1,5,NaN}, to_single_edges; each result compared with the definition computed from the source's base view, checked with the C02/C03 state oracles, and (deep stages) continued by one operation of every kind against the C01 reference model; the source's private snapshot must be unchanged");
    for k in ["states_checked", "derived_graphs", "proper_subgraphs_with_edges", "collapses_with_parallel_groups"] {
        out.require_nonzero(k);
    }
    out.assumptions = vec!["names {a,b,c}+absent; weights {NaN,1,2}; depth bound as reported".into(), "attributes of a collapsed edge are not asserted (the statement does not define them)".into()];
    out
}

pub fn replay(case: &str, rec: &Recorder) -> bool {
    if case.starts_with("tall:") {
        let mut c = Counters::default();
        tall_stage(rec, &mut c, Some(case));
        return rec.has_any();
    }
    let pc = match parse_case(case) {
        Some(p) => p,
        None => return false,
    };
    let specs = spec_from_index(pc.spec_idx);
    let ops = ops_of(&pc.alphabet, &pc.hist);
    for round in 0..2 {
        let (g, _) = build_real(&specs, &ops);
        let r = replay_ref(&specs, &ops);
        let sn = snap(&g);
        println!("round {round}: specs=[{}] history={:?}", spec_str(&specs), ops.iter().map(|o| o.short()).collect::<Vec<_>>());
        let mut c = Counters::default();
        C15Oracle { deep: true }.state(&StateCtx { spec_idx: pc.spec_idx, specs: &specs, alphabet: &pc.alphabet, hist: &pc.hist, g: &g, r: &r, snap: &sn }, rec, &mut c);
    }
    rec.has_any()
}
