//! C13 — Louvain terminates with nested partitions of non-decreasing modularity.
//! E2 inputs x E3 hash-order choices; liveness by observing the sweep states (lasso / horizon).
use crate::c04::*;
use crate::c12::modularity_oracle;
use crate::common::*;
use crate::e2::*;
use crate::e3;
use graphrs::algorithms::community::louvain;
use graphrs::verif_hooks;
use std::cell::RefCell;
use std::collections::{BTreeSet, HashSet};
use std::rc::Rc;
use std::time::{Duration, Instant};

pub type Levels = Vec<BTreeSet<BTreeSet<usize>>>;

#[derive(Clone, Debug, PartialEq, Eq, PartialOrd, Ord)]
pub enum Outcome {
    Levels(Vec<Vec<Vec<usize>>>),
    Err(String),
    NonTerminating(String),
    Panic(String),
}

pub struct Exec {
    pub outcome: Outcome,
    pub raw: Option<Vec<Vec<HashSet<N>>>>,
    pub points: Vec<e3::Point>,
    pub diverged: Option<String>,
    pub sweeps: usize,
    pub panic: Option<PanicInfo>,
}

pub fn horizon(n: usize) -> usize {
    100 * n * n + 100
}

/// one execution of louvain_partitions under a choice prefix (or free-running when `prefix` is None)
pub fn exec_louvain(b: &Built, weighted: bool, res: Option<f64>, thr: Option<f64>, seed: Option<u64>, prefix: Option<&[u64]>, ignore_sites: &[&'static str]) -> Exec {
    let hz = horizon(b.n);
    let sweeps = Rc::new(RefCell::new(0usize));
    let s2 = sweeps.clone();
    let plen = prefix.map(|p| p.len()).unwrap_or(usize::MAX);
    let exact_weights = !weighted || b.edges.iter().all(|e| e.2.is_nan() || e.2.fract() == 0.0);
    let mut seen: HashSet<(usize, Vec<usize>)> = HashSet::new();
    let mut level = 0usize;
    verif_hooks::set_observer(Some(Box::new(move |site, state| {
        if site == "louvain.level" {
            level += 1;
            seen.clear();
            return;
        }
        *s2.borrow_mut() += 1;
        if *s2.borrow() > hz {
            std::panic::panic_any(StopRun(format!("more than {hz} local-moving sweeps")));
        }
        // a repeated state once every dictated choice has been consumed is a lasso: from here on the
        // explorer answers every choice with the default, so the sweep is a function of the state.
        // Only with exactly representable weights: the per-community degree totals are updated with
        // += / -= and are part of the real state; with inexact weights they drift, so an equal
        // node->community vector is not an equal state and only the horizon applies.
        if exact_weights && e3::POINT_COUNT.with(|c| c.get()) >= plen {
            if !seen.insert((level, state.to_vec())) {
                std::panic::panic_any(StopRun("the local-moving state repeats (lasso)".into()));
            }
        }
    })));
    let call = || guarded(|| louvain::louvain_partitions(&b.g, weighted, res, thr, seed));
    let (r, points, diverged) = match prefix {
        Some(p) => e3::run_with_choices(p, ignore_sites, call),
        None => (call(), vec![], None),
    };
    verif_hooks::set_observer(None);
    let n_sweeps = *sweeps.borrow();
    match r {
        Err(pi) => {
            if let Some(why) = is_stop(&pi) {
                Exec { outcome: Outcome::NonTerminating(why.to_string()), raw: None, points, diverged, sweeps: n_sweeps, panic: None }
            } else {
                Exec { outcome: Outcome::Panic(format!("{} at {}", pi.msg, pi.site())), raw: None, points, diverged, sweeps: n_sweeps, panic: Some(pi) }
            }
        }
        Ok(Err(e)) => Exec { outcome: Outcome::Err(format!("{:?}", e.kind)), raw: None, points, diverged, sweeps: n_sweeps, panic: None },
        Ok(Ok(levels)) => {
            let canon: Vec<Vec<Vec<usize>>> = levels
                .iter()
                .map(|lv| {
                    let mut cs: Vec<Vec<usize>> = lv
                        .iter()
                        .map(|c| {
                            let mut v: Vec<usize> = c.iter().map(|x| idx_of(b, x)).collect();
                            v.sort();
                            v
                        })
                        .collect();
                    cs.sort();
                    cs
                })
                .collect();
            Exec { outcome: Outcome::Levels(canon), raw: Some(levels), points, diverged, sweeps: n_sweeps, panic: None }
        }
    }
}

fn res_q(res: Option<f64>) -> (i128, i128) {
    match res {
        Some(x) if x == 0.5 => (1, 2),
        Some(x) if x == 2.0 => (2, 1),
        _ => (1, 1),
    }
}

/// safety oracle on a returned list of levels
pub fn check_levels(b: &Built, raw: &[HashSet<N>], levels: &[Vec<Vec<usize>>], weighted: bool, res: Option<f64>, fail: &mut dyn FnMut(&str, String)) {
    let _ = raw;
    if levels.is_empty() {
        fail("levels_nonempty", "no level returned".into());
        return;
    }
    let full: usize = (1usize << b.n) - 1;
    let mut masks_per_level: Vec<Vec<usize>> = vec![];
    for (i, lv) in levels.iter().enumerate() {
        let mut seen = 0usize;
        let mut masks = vec![];
        let mut ok = true;
        for c in lv {
            if c.is_empty() {
                ok = false;
            }
            let m: usize = c.iter().map(|v| 1usize << v).sum();
            if c.iter().collect::<BTreeSet<_>>().len() != c.len() || seen & m != 0 {
                ok = false;
            }
            seen |= m;
            masks.push(m);
        }
        if !ok || seen != full {
            fail("level_is_partition", format!("level {i} = {:?} is not a partition of the {} nodes into non-empty communities", lv.iter().map(|c| c.iter().map(|v| b.names[*v]).collect::<Vec<_>>()).collect::<Vec<_>>(), b.n));
            return;
        }
        masks_per_level.push(masks);
    }
    for i in 1..masks_per_level.len() {
        for &m in &masks_per_level[i] {
            // union of communities of the previous level
            let ok = masks_per_level[i - 1].iter().all(|&p| p & m == 0 || p & m == p);
            if !ok {
                fail("nested", format!("level {i} is not a coarsening of level {}: {:?} vs {:?}", i - 1, levels[i], levels[i - 1]));
                return;
            }
        }
    }
    if !b.kind.multi {
        let (rn, rd) = res_q(res);
        let singles: Vec<usize> = (0..b.n).map(|v| 1usize << v).collect();
        // weights that are not whole multiples of one unit (the near-equal alphabets): f64 oracle, wider tolerance
        let unit = b.edges.iter().map(|e| e.2.abs()).filter(|x| *x > 0.0 && x.is_finite()).fold(f64::INFINITY, f64::min);
        let inexact = weighted && b.edges.iter().any(|e| !e.2.is_nan() && (e.2 / unit).fract() != 0.0);
        let oracle = |masks: &[usize]| -> f64 {
            if !inexact {
                return modularity_oracle(b, masks, weighted, rn, rd);
            }
            let mut comm_of = vec![0usize; b.n];
            for (ci, m) in masks.iter().enumerate() {
                for v in 0..b.n {
                    if m >> v & 1 == 1 {
                        comm_of[v] = ci;
                    }
                }
            }
            newman_q(&b.edges, b.kind.directed, &comm_of, masks.len(), true, rn as f64 / rd as f64)
        };
        let tol = if inexact { 1e-9 } else { 1e-12 };
        let mut prev = oracle(&singles);
        for (i, masks) in masks_per_level.iter().enumerate() {
            let q = oracle(masks);
            if q < prev - tol {
                fail("modularity_monotone", format!("modularity decreases at level {i}: {q} after {prev} ({}); levels {:?}", if i == 0 { "all singletons" } else { "previous level" }, levels));
                return;
            }
            prev = q;
        }
    }
}

pub struct Params {
    pub bound: usize,
    pub budget: u64,
    pub seeds: Vec<u64>,
    pub free_seeds: u64,
}

/// a hanging implementation costs a full horizon per execution: once non-termination has been reported this many
/// times the verdict is settled and further inputs are skipped (counted)
const ENOUGH_TERMINATION_REPORTS: u64 = 12;

pub fn check_louvain(b: &Built, rec: &Recorder, c: &mut Counters, p: &Params) -> u64 {
    if rec.occurrences("termination") >= ENOUGH_TERMINATION_REPORTS {
        c.inc("inputs_skipped_after_enough_termination_reports");
        return 0;
    }
    let mut calls = 0u64;
    let weighted_modes: Vec<bool> = if b.weighted { vec![true, false] } else { vec![false] };
    for &weighted in &weighted_modes {
        for res in [None, Some(0.5), Some(2.0)] {
            for thr in [Some(0.0), None, Some(0.1)] {
                for &seed in &p.seeds {
                    let args = format!("weighted={weighted}, resolution={res:?}, threshold={thr:?}, seed=Some({seed})");
                    let sub = format!("{}|lv:w={weighted}:res={res:?}:thr={thr:?}:seed={seed}", b.case);
                    let mk = |clause: &str, call: &str, extra: String, detail: String| {
                        let mut t = b.tags();
                        if b.kind.directed {
                            t.push("directed_louvain".into());
                        }
                        Violation::new(clause, call, format!("{sub}{extra}"), format!("{}\n{call}({args})\n{detail}", b.describe())).with_tags(t).with_snippet(b.snippet(&format!(
                            "    let r = graphrs::algorithms::community::louvain::louvain_partitions(&g, {weighted}, {res:?}, {thr:?}, Some({seed}));\n    // {}\n",
                            detail.replace('\n', " ")
                        )))
                    };
                    // explore hash-order choices at the best-community seam
                    let mut n_term = 0u64;
                    let mut n_nonterm = 0u64;
                    let mut first_nonterm: Option<(Vec<u64>, String)> = None;
                    let mut run = |prefix: &[u64]| -> (Vec<e3::Point>, Option<String>) {
                        let ex = exec_louvain(b, weighted, res, thr, Some(seed), Some(prefix), &["louvain.nbr_weights"]);
                        c.addn("sweeps_observed", ex.sweeps as u64);
                        match &ex.outcome {
                            Outcome::Levels(lv) => {
                                n_term += 1;
                                check_levels(b, &[], lv, weighted, res, &mut |cl, d| rec.record(mk(cl, "louvain_partitions", format!("|c={prefix:?}"), format!("hash-order choices {prefix:?}\n{d}"))));
                            }
                            Outcome::NonTerminating(why) => {
                                n_nonterm += 1;
                                if first_nonterm.is_none() {
                                    first_nonterm = Some((prefix.to_vec(), why.clone()));
                                }
                            }
                            Outcome::Err(k) => rec.record(mk("unexpected_error", "louvain_partitions", format!("|c={prefix:?}"), format!("Err({k})"))),
                            Outcome::Panic(m) => {
                                let v = mk("no_panic", "louvain_partitions", format!("|c={prefix:?}"), m.clone());
                                rec.record(match &ex.panic {
                                    Some(pi) => v.with_panic(pi.clone()),
                                    None => v,
                                });
                            }
                        }
                        (ex.points, ex.diverged)
                    };
                    let st = e3::explore(p.bound, p.budget, &mut run);
                    calls += st.executions;
                    c.addn("executions", st.executions);
                    c.addn("choice_points", st.choice_points);
                    if st.divergences > 0 {
                        c.inc("choice_replay_divergences");
                    }
                    if st.truncated {
                        c.inc("inputs_truncated_by_budget");
                    }
                    if st.max_points > 0 {
                        c.inc("inputs_with_choice_points");
                    }
                    if n_nonterm > 0 {
                        c.addn("orders_not_terminating", n_nonterm);
                    }
                    // termination verdict: no explored order policy terminates AND the free-running code does not either
                    let mut free_nonterm = 0;
                    let mut free_runs = 0;
                    if n_term == 0 || n_nonterm > 0 {
                        for hs in 0..p.free_seeds {
                            let ex = on_fresh_thread_scoped(1000 + hs, || exec_louvain(b, weighted, res, thr, Some(seed), None, &[]).outcome);
                            free_runs += 1;
                            calls += 1;
                            if let Ok(Outcome::NonTerminating(_)) = ex {
                                free_nonterm += 1;
                            }
                        }
                    }
                    if n_term == 0 && free_runs > 0 && free_nonterm == free_runs {
                        let (pf, why) = first_nonterm.clone().unwrap_or_default();
                        rec.record(mk("termination", "louvain_partitions", String::new(), format!("does not terminate: every explored order policy ({} executions) ends in a lasso or exceeds {} sweeps (first: choices {pf:?}: {why}); the free-running code exceeded the horizon under all {free_runs} hash seeds", st.executions, horizon(b.n))));
                        c.inc("inputs_not_terminating");
                    } else if free_nonterm > 0 {
                        rec.record(mk("termination", "louvain_partitions", "|free".into(), format!("the free-running code (real hash orders) exceeded {} sweeps under {free_nonterm} of {free_runs} hash seeds", horizon(b.n))));
                    }
                    // louvain_communities = last level (default order)
                    if seed == p.seeds[0] {
                        calls += 2;
                        let lv = exec_louvain(b, weighted, res, thr, Some(seed), Some(&[]), &["louvain.nbr_weights"]);
                        let (lc, _, _) = e3::run_with_choices(&[], &["louvain.nbr_weights"], || {
                            let hz = horizon(b.n);
                            let mut k = 0usize;
                            verif_hooks::set_observer(Some(Box::new(move |site, _| {
                                if site == "louvain.sweep" {
                                    k += 1;
                                    if k > hz {
                                        std::panic::panic_any(StopRun("horizon".into()));
                                    }
                                }
                            })));
                            let r = guarded(|| louvain::louvain_communities(&b.g, weighted, res, thr, Some(seed)));
                            verif_hooks::set_observer(None);
                            r
                        });
                        if let (Outcome::Levels(levels), Ok(Ok(comms))) = (&lv.outcome, &lc) {
                            let mut got: Vec<Vec<usize>> = comms
                                .iter()
                                .map(|s| {
                                    let mut v: Vec<usize> = s.iter().map(|x| idx_of(b, x)).collect();
                                    v.sort();
                                    v
                                })
                                .collect();
                            got.sort();
                            if levels.last() != Some(&got) {
                                rec.record(mk("communities_is_last_level", "louvain_communities", String::new(), format!("louvain_communities = {got:?}, last level of louvain_partitions = {:?}", levels.last())));
                            }
                        }
                    }
                }
            }
        }
    }
    calls
}

pub fn c13_families(tier: &str) -> Vec<Family> {
    let mut v = vec![];
    let mut add = |mut f: Family| {
        f.min_edges = 1;
        v.push(f);
    };
    add(fam_primed(US, 3, "w12", &ORD_ONE));
    add(fam_primed(DS, 3, "u", &ORD_ONE));
    for f in route_small("w12", true).into_iter().chain(hist_small("w12", false)) {
        add(f);
    }
    add(fam(US, 3, "wtiny", &ORD_ONE));
    add(fam(US, 3, "whuge", &ORD_ONE));
    add(fam(DS, 3, "whuge", &ORD_ONE));
    add(fam(US, 4, "whuge", &ORD_ONE));
    if tier == "quick" {
        for k in kinds_all() {
            add(fam(k, 2, "u", &ORD_ONE));
            if !(k.multi && k.loops) {
                add(fam(k, 3, "u", &ORD_ONE));
            }
        }
        add(fam(US, 3, "w12", &ORD_ONE));
        add(fam(DS, 3, "w12", &ORD_ONE));
        add(fam(US, 4, "u", &ORD_ONE));
        add(fam(US, 4, "w12", &ORD_ONE));
        add(fam(DS, 4, "u", &ORD_ONE));
    } else {
        for k in kinds_all() {
            add(fam(k, 2, "u", &ORD_TWO));
            add(fam(k, 2, "w12", &ORD_ONE));
            add(fam(k, 3, "u", &ORD_ONE));
        }
        add(fam(US, 3, "w12", &ORD_TWO));
        add(fam(DS, 3, "w12", &ORD_TWO));
        add(fam(USL, 3, "w12", &ORD_ONE));
        add(fam(US, 4, "u", &ORD_TWO));
        add(fam(US, 4, "w12", &ORD_ONE));
        add(fam(DS, 4, "u", &ORD_ONE));
        add(fam(US, 5, "u", &ORD_ONE));
    }
    v
}

/// medium-size inputs (6..12 nodes) that leave several communities after the first level:
/// seeded G(n,p) both kinds, rings of (directed) triangles, two cliques joined by a path
pub fn medium_inputs(tier: &str) -> Vec<Built> {
    let mut v = vec![];
    let ds = Kind { directed: true, multi: false, loops: false };
    let us = Kind { directed: false, multi: false, loops: false };
    let seeds: Vec<u64> = if tier == "quick" { (0..6).collect() } else { (0..40).collect() };
    for &n in &[6usize, 7, 9, 12] {
        for &p in &[0.25, 0.4] {
            for &s in &seeds {
                for directed in [true, false] {
                    if let Ok(g) = graphrs::generators::random::fast_gnp_random_graph(n as i32, p, directed, Some(s)) {
                        let mut es: Vec<(usize, usize, f64)> = g.get_all_edges().iter().map(|e| (e.u as usize, e.v as usize, f64::NAN)).collect();
                        es.sort_by(|a, b| (a.0, a.1).cmp(&(b.0, b.1)));
                        if es.is_empty() {
                            continue;
                        }
                        v.push(build_custom(if directed { ds } else { us }, n, &es, &format!("gnp:{n}:{p}:{}:{s}", directed as u8)));
                        if s < 2 {
                            let ew: Vec<(usize, usize, f64)> = es.iter().map(|e| (e.0, e.1, (1 + (e.0 * 3 + e.1) % 3) as f64)).collect();
                            v.push(build_custom(if directed { ds } else { us }, n, &ew, &format!("gnpw:{n}:{p}:{}:{s}", directed as u8)));
                        }

                    }
                }
            }
        }
    }
    // nearly equal weights (1, 1+eps, 1+2eps): every sum of three of them rounds, so gains that are equal in
    // exact arithmetic differ in the last bits and the running community totals drift
    let ulp_seeds: u64 = if tier == "quick" { 12 } else { 60 };
    for &n in &[5usize, 6, 8, 10] {
        for &p in &[0.5, 0.8] {
            for s in 0..ulp_seeds {
                for directed in [true, false] {
                    if let Ok(g) = graphrs::generators::random::fast_gnp_random_graph(n as i32, p, directed, Some(s)) {
                        let mut es: Vec<(usize, usize)> = g.get_all_edges().iter().map(|e| (e.u as usize, e.v as usize)).collect();
                        es.sort();
                        if es.is_empty() {
                            continue;
                        }
                        let eu: Vec<(usize, usize, f64)> = es.iter().map(|e| (e.0, e.1, 1.0 + f64::EPSILON * ((e.0 * 3 + e.1) % 3) as f64)).collect();
                        v.push(build_custom(if directed { ds } else { us }, n, &eu, &format!("gnpulp:{n}:{p}:{}:{s}", directed as u8)));
                    }
                }
            }
        }
    }
    for k in [2usize, 3, 4] {
        // ring of k triangles, consecutive triangles joined by one edge
        let n = 3 * k;
        let mut es = vec![];
        for t in 0..k {
            let b = 3 * t;
            es.push((b, b + 1, f64::NAN));
            es.push((b + 1, b + 2, f64::NAN));
            es.push((b + 2, b, f64::NAN));
            es.push((b + 2, (b + 3) % n, f64::NAN));
        }
        v.push(build_custom(ds, n, &es, &format!("triangle-ring:{k}:directed")));
        v.push(build_custom(us, n, &es, &format!("triangle-ring:{k}:undirected")));
        // the same with the joining edges running "backwards" (from the later triangle to the earlier one)
        let es2: Vec<(usize, usize, f64)> = es.iter().map(|&(a, b, w)| if a % 3 == 2 && b % 3 == 0 && b != a - 2 { (b, a, w) } else { (a, b, w) }).collect();
        v.push(build_custom(ds, n, &es2, &format!("triangle-ring-back:{k}:directed")));
    }
    v
}

/// the near-equal-weight inputs of `medium_inputs` scaled by 2^53 (exact): whole numbers 2^53, 2^53+2, 2^53+4,
/// whose sums of three are rounded - "integers" for which addition is still order-dependent
pub fn big_whole_inputs(tier: &str) -> Vec<Built> {
    medium_inputs(tier)
        .into_iter()
        .filter(|b| b.case.starts_with("custom:gnpulp"))
        .map(|b| {
            let es: Vec<(usize, usize, f64)> = b.edges.iter().map(|e| (e.0, e.1, e.2 * 2f64.powi(53))).collect();
            build_custom(b.kind, b.n, &es, &b.case.replace("custom:gnpulp", "gnpbig"))
        })
        .collect()
}

/// the same medium graphs with weights 1, 2 and, on every fifth edge, +infinity (total weight infinite, gains
/// towards a community holding an infinite edge are NaN): for reproducibility checks only
pub fn infinite_weight_inputs(tier: &str) -> Vec<Built> {
    medium_inputs(tier)
        .into_iter()
        .filter(|b| b.case.starts_with("custom:gnpulp"))
        .map(|b| {
            let es: Vec<(usize, usize, f64)> = b.edges.iter().map(|e| (e.0, e.1, if (e.0 * 3 + e.1) % 5 == 0 { f64::INFINITY } else { 1.0 + ((e.0 + e.1) % 2) as f64 })).collect();
            build_custom(b.kind, b.n, &es, &b.case.replace("custom:gnpulp", "gnpinf"))
        })
        .collect()
}

/// Newman modularity in f64 for graphs beyond 32 nodes (integer weights, so sums are exact)
fn newman_q(edges: &[(usize, usize, f64)], directed: bool, comm_of: &[usize], ncomm: usize, weighted: bool, gamma: f64) -> f64 {
    let w = |e: &(usize, usize, f64)| if weighted { e.2 } else { 1.0 };
    let m: f64 = edges.iter().map(w).sum();
    let (mut lc, mut so, mut si) = (vec![0.0; ncomm], vec![0.0; ncomm], vec![0.0; ncomm]);
    for e in edges {
        let (a, b) = (comm_of[e.0], comm_of[e.1]);
        if a == b {
            lc[a] += w(e);
        }
        so[a] += w(e);
        si[b] += w(e);
    }
    (0..ncomm).map(|c| if directed { lc[c] / m - gamma * so[c] * si[c] / (m * m) } else { lc[c] / m - gamma * ((so[c] + si[c]) / (2.0 * m)).powi(2) }).sum()
}

/// graphs with several hundred to a few thousand edges (sizes around round numbers): interleaved rings
/// of cliques, both kinds; default order only, same safety oracle
fn large_louvain_stage(tier: &str, rec: &Recorder, c: &mut Counters) {
    use graphrs::{Edge, Graph, GraphSpecs, Node};
    let shapes: Vec<(usize, usize)> = if tier == "quick" { vec![(12, 5), (26, 5), (33, 6), (40, 8)] } else { vec![(12, 5), (20, 5), (26, 5), (27, 5), (33, 6), (52, 5), (40, 8), (70, 6), (105, 5), (60, 9)] };
    for (cliques, size) in shapes {
        for directed in [false, true] {
            for weighted in [false, true] {
                let n = cliques * size;
                // node i belongs to clique i % cliques (interleaved, so communities are not contiguous in node order)
                let mut edges: Vec<(usize, usize, f64)> = vec![];
                for a in 0..n {
                    for b in (a + 1)..n {
                        if a % cliques == b % cliques {
                            let wt = if weighted { (1 + (a + b) % 3) as f64 } else { f64::NAN };
                            if directed && (a + b) % 2 == 1 {
                                edges.push((b, a, wt));
                            } else {
                                edges.push((a, b, wt));
                            }
                        }
                    }
                }
                for k in 0..cliques {
                    let (a, b) = (k, (k + 1) % cliques + cliques);
                    let wt = if weighted { 1.0 } else { f64::NAN };
                    if directed && k % 2 == 0 {
                        edges.push((b, a, wt));
                    } else {
                        edges.push((a, b, wt));
                    }
                }
                let mut g: Graph<i32, ()> = Graph::new(if directed { GraphSpecs::directed() } else { GraphSpecs::undirected() });
                for i in (0..n).rev() {
                    g.add_node(Node::from_name(i as i32));
                }
                for &(a, b, wt) in &edges {
                    let _ = g.add_edge(std::sync::Arc::new(Edge { u: a as i32, v: b as i32, weight: wt, attributes: None }));
                }
                let ew: Vec<(usize, usize, f64)> = edges.iter().map(|e| (e.0, e.1, if e.2.is_nan() { 1.0 } else { e.2 })).collect();
                for seed in [0u64, 1] {
                    for res in [None, Some(2.0)] {
                        if rec.occurrences("termination") >= ENOUGH_TERMINATION_REPORTS {
                            continue;
                        }
                        c.inc("large_graph_runs");
                        let case = format!("LL:{cliques}x{size}:{}:{}:seed={seed}:res={res:?}", if directed { "directed" } else { "undirected" }, if weighted { "w" } else { "u" });
                        let hz = 100 + 10 * n;
                        let mut k = 0usize;
                        verif_hooks::set_observer(Some(Box::new(move |site, _| {
                            if site == "louvain.sweep" {
                                k += 1;
                                if k > hz {
                                    std::panic::panic_any(StopRun(format!("more than {hz} sweeps")));
                                }
                            }
                        })));
                        let r = guarded(|| louvain::louvain_partitions(&g, weighted, res, None, Some(seed)));
                        verif_hooks::set_observer(None);
                        let mk = |clause: &str, detail: String| Violation::new(clause, "louvain_partitions", case.clone(), format!("{cliques} interleaved cliques of {size} nodes in a ring ({} edges, n={n}), {}, weighted={weighted}, resolution={res:?}, seed={seed}\n{detail}", edges.len(), if directed { "directed" } else { "undirected" })).with_tags(vec!["large_graph".into()]);
                        match r {
                            Err(pi) => {
                                if let Some(why) = is_stop(&pi) {
                                    rec.record(mk("termination", format!("did not terminate: {why}")));
                                } else {
                                    rec.record(mk("no_panic", pi.msg.clone()).with_panic(pi));
                                }
                            }
                            Ok(Err(e)) => rec.record(mk("unexpected_error", format!("Err({:?})", e.kind))),
                            Ok(Ok(levels)) => {
                                if levels.is_empty() {
                                    rec.record(mk("levels_nonempty", "no level returned".into()));
                                    continue;
                                }
                                let gamma = res.unwrap_or(1.0);
                                let singles: Vec<usize> = (0..n).collect();
                                let mut prev_q = newman_q(&ew, directed, &singles, n, weighted, gamma);
                                let mut prev_comm: Vec<usize> = singles.clone();
                                for (li, lv) in levels.iter().enumerate() {
                                    let mut comm_of = vec![usize::MAX; n];
                                    let mut ok = true;
                                    for (ci, cset) in lv.iter().enumerate() {
                                        if cset.is_empty() {
                                            ok = false;
                                        }
                                        for &x in cset {
                                            let xi = x as usize;
                                            if xi >= n || comm_of[xi] != usize::MAX {
                                                ok = false;
                                            } else {
                                                comm_of[xi] = ci;
                                            }
                                        }
                                    }
                                    if !ok || comm_of.iter().any(|&x| x == usize::MAX) {
                                        rec.record(mk("level_is_partition", format!("level {li} is not a partition of the node set")));
                                        break;
                                    }
                                    // nested: nodes sharing a community at the previous level still share one
                                    let mut rep: std::collections::HashMap<usize, usize> = std::collections::HashMap::new();
                                    let nested = (0..n).all(|v| *rep.entry(prev_comm[v]).or_insert(comm_of[v]) == comm_of[v]);
                                    if !nested {
                                        rec.record(mk("nested", format!("level {li} is not a coarsening of the previous level")));
                                        break;
                                    }
                                    let q = newman_q(&ew, directed, &comm_of, lv.len(), weighted, gamma);
                                    if q < prev_q - 1e-9 {
                                        rec.record(mk("modularity_monotone", format!("modularity decreases at level {li}: {q} after {prev_q} ({} communities)", lv.len())));
                                        break;
                                    }
                                    prev_q = q;
                                    prev_comm = comm_of;
                                }
                            }
                        }
                    }
                }
            }
        }
    }
}

pub fn params(tier: &str) -> Params {
    if tier == "quick" {
        Params { bound: 1, budget: 300, seeds: vec![0, 1], free_seeds: 4 }
    } else {
        Params { bound: 2, budget: 10_000, seeds: vec![0, 1, 2], free_seeds: 8 }
    }
}

pub fn run(tier: &str, rec: &Recorder) -> RunOutput {
    let start = Instant::now();
    let mut out = RunOutput::new("model_checking");
    let deadline = start + Duration::from_secs_f64(wall_cap_s(tier));
    let stats = E2Stats::new();
    let seed = std::env::var("VERIF_SEED").ok().and_then(|s| s.parse().ok()).unwrap_or(0);
    let p = params(tier);
    for_each_family(&c13_families(tier), |f| {
        for_each_graph(f, seed, deadline, &stats, |b, c| check_louvain(b, rec, c, &p));
    });
    // medium-size inputs: not exhaustive over graphs, but each explored like the small ones
    {
        let med = medium_inputs(tier);
        let pm = Params { bound: 1, budget: if tier == "quick" { 40 } else { 2000 }, seeds: if tier == "quick" { vec![0, 1] } else { vec![0, 1, 2, 3] }, free_seeds: 4 };
        let tot = std::sync::Mutex::new(Counters::default());
        par_for(med.len(), |i| {
            if Instant::now() > deadline {
                stats.capped.store(true, std::sync::atomic::Ordering::Relaxed);
                return;
            }
            let mut c = Counters::default();
            let k = check_louvain(&med[i], rec, &mut c, &pm);
            c.addn("medium_graph_executions", k);
            c.inc("medium_graphs");
            tot.lock().unwrap().merge(&c);
        });
        stats.counters.lock().unwrap().merge(&tot.into_inner().unwrap());
    }
    {
        let mut c = Counters::default();
        large_louvain_stage(tier, rec, &mut c);
        stats.counters.lock().unwrap().merge(&c);
    }
    fill_e2_coverage(&mut out, &stats);
    out.set("input_graphs", out.get("states"));
    out.set("states", out.get("sweeps_observed").max(1));
    out.set("transitions", out.get("sweeps_observed").max(1));
    out.set("traces_validated_against_impl", out.get("executions"));
    out.set("evaluations", out.get("executions"));
    out.set("deviation_bound", p.bound as u64);
    out.set("distinct_nontrivial", out.get("inputs_with_choice_points"));
    out.set("rule", "every labelled graph with >= 1 edge of each family (all kinds n<=3, undirected n<=4/5, directed n<=4; unweighted and weights {1,2}) x weighted flag x resolution in {0.5,1,2} x threshold in {0,1e-7,0.1} x seeds; per input E3 explores the iteration order of the candidate-community map at every visit (deviation bound as reported, all permutations per point); the observer hook yields the (level, node->community) state at the top of every sweep: a repeated state after the dictated choices are consumed is a lasso, more than 100 n^2 + 100 sweeps is the horizon; termination is reported only if no explored order terminates and the free-running code (real hash orders, several hash seeds) does not either. states/transitions = sweep states observed; input_graphs = graphs");
    for k in ["executions", "sweeps_observed", "inputs_with_choice_points"] {
        out.require_nonzero(k);
    }
    if out.get("choice_replay_divergences") > 0 {
        out.machinery_errors.push(format!("choice replay diverged on {} inputs: the code under test depends on nondeterminism the order seams do not own (see C17)", out.get("choice_replay_divergences")));
    }
    out.assumptions = vec![
        "modularity monotonicity is asserted on single-edge graphs only (as the statement), with the harness's own Newman implementation on the input graph".into(),
        "orders at hash-map sites without a seam (edge order in graph aggregation, degree sums) only affect float addition order; weights are small integers so those sums are exact".into(),
    ];
    out
}

pub fn replay(case: &str, rec: &Recorder) -> bool {
    if case.starts_with("LL:") {
        let mut c = Counters::default();
        large_louvain_stage("thorough", rec, &mut c);
        return rec.has_any();
    }
    if case.starts_with("custom:") {
        let label = case.split('|').next().unwrap_or("");
        for tier in ["quick", "thorough"] {
            for b in medium_inputs(tier) {
                if b.case == label {
                    println!("{}", b.describe());
                    let pm = Params { bound: 1, budget: 2000, seeds: vec![0, 1, 2, 3], free_seeds: 4 };
                    let mut c = Counters::default();
                    check_louvain(&b, rec, &mut c, &pm);
                    return rec.has_any();
                }
            }
        }
        return false;
    }
    let (f, idx, no, eo, _) = match parse_case(case) {
        Some(x) => x,
        None => return false,
    };
    let seed = std::env::var("VERIF_SEED").ok().and_then(|s| s.parse().ok()).unwrap_or(0);
    let p = params("thorough");
    for round in 0..2 {
        let f2 = f.clone();
        let _ = on_fresh_thread_scoped(seed, || {
            let b = build(&f2, idx, no, eo);
            println!("round {round}: {}", b.describe());
            let mut c = Counters::default();
            check_louvain(&b, rec, &mut c, &p);
        });
    }
    rec.has_any()
}
