//! C14 — GraphML write-then-read reproduces the graph exactly.
use crate::common::*;
use graphrs::readwrite::graphml;
use graphrs::{Edge, EdgeDedupeStrategy, Graph, GraphSpecs, MissingNodeStrategy, Node, SelfLoopsFalseStrategy};
use std::sync::Arc;
use std::sync::Mutex;
use std::time::{Duration, Instant};

type GS = Graph<String, ()>;

pub const NAME_MENU: &[&str] = &["", "a", "a b", " a", "a ", "<", ">", "&", "\"", "'", "&amp;", "&#65;", "]]>", "<!--", "é", "日本", "a\u{a0}b", "𝒜", "a=b", "/>", "n1"];

pub fn weight_menu() -> Vec<f64> {
    vec![f64::NAN, 0.0, -0.0, 1.0, 0.1, 1.0 / 3.0, 1e308, f64::MAX, f64::MIN_POSITIVE, 5e-324, f64::INFINITY, f64::NEG_INFINITY, 123456789.123456789, -2.5e-7]
}

fn wb(w: f64) -> u64 {
    if w.is_nan() {
        0x7ff8_0000_0000_0000
    } else {
        w.to_bits()
    }
}

fn specs_for(directed: bool, multi: bool, loops: bool, variant: usize) -> GraphSpecs {
    GraphSpecs {
        directed,
        multi_edges: multi,
        self_loops: loops,
        edge_dedupe_strategy: [EdgeDedupeStrategy::Error, EdgeDedupeStrategy::KeepLast][variant % 2].clone(),
        missing_node_strategy: [MissingNodeStrategy::Error, MissingNodeStrategy::Create][(variant / 2) % 2].clone(),
        self_loops_false_strategy: SelfLoopsFalseStrategy::Error,
    }
}

struct Case<'a> {
    names: Vec<&'a str>,
    edges: Vec<(usize, usize, f64)>,
    specs: GraphSpecs,
    label: String,
}

thread_local! {
    /// second pass of a case: equal edges are added as ONE shared Arc (the same edge object added twice)
    static SHARED_ARCS: std::cell::Cell<bool> = const { std::cell::Cell::new(false) };
}

fn build(c: &Case) -> Option<GS> {
    let mut g: GS = Graph::new(c.specs.clone());
    for n in &c.names {
        g.add_node(Node::from_name(n.to_string()));
    }
    let shared = SHARED_ARCS.with(|s| s.get());
    let mut cache: std::collections::HashMap<(usize, usize, u64), Arc<Edge<String, ()>>> = std::collections::HashMap::new();
    for &(u, v, w) in &c.edges {
        let fresh = || Arc::new(Edge { u: c.names[u].to_string(), v: c.names[v].to_string(), weight: w, attributes: None });
        let e = if shared { cache.entry((u, v, w.to_bits())).or_insert_with(fresh).clone() } else { fresh() };
        if g.add_edge(e).is_err() {
            return None;
        }
    }
    Some(g)
}

fn check_case(c: &Case, with_file: bool, rec: &Recorder, cn: &mut Counters) {
    check_case_pass(c, with_file, rec, cn);
    let mut keys: Vec<(usize, usize, u64)> = c.edges.iter().map(|e| (e.0, e.1, e.2.to_bits())).collect();
    keys.sort();
    if keys.windows(2).any(|w| w[0] == w[1]) {
        SHARED_ARCS.with(|s| s.set(true));
        cn.inc("round_trips_with_shared_edge_objects");
        check_case_pass(c, false, rec, cn);
        SHARED_ARCS.with(|s| s.set(false));
    }
}

fn edges_canon(g: &GS) -> Vec<(String, String, u64)> {
    let d = g.specs.directed;
    let mut v: Vec<(String, String, u64)> = g
        .get_all_edges()
        .iter()
        .map(|e| {
            let (a, b) = if !d && e.u > e.v { (e.v.clone(), e.u.clone()) } else { (e.u.clone(), e.v.clone()) };
            (a, b, wb(e.weight))
        })
        .collect();
    v.sort();
    v
}

fn check_case_pass(c: &Case, with_file: bool, rec: &Recorder, cn: &mut Counters) {
    let g = match build(c) {
        Some(g) => g,
        None => return,
    };
    cn.inc("round_trips");
    if c.edges.iter().any(|e| !e.2.is_nan()) {
        cn.inc("round_trips_with_weights");
    }
    let desc = format!("{}names {:?}, edges {:?}, specs directed={} multi={} loops={}", if SHARED_ARCS.with(|s| s.get()) { "[equal edges added as one shared Arc] " } else { "" }, c.names, c.edges.iter().map(|e| (c.names[e.0], c.names[e.1], e.2)).collect::<Vec<_>>(), c.specs.directed, c.specs.multi_edges, c.specs.self_loops);
    let mk = |clause: &str, call: &str, detail: String| {
        let mut snip = String::from("use graphrs::*; use std::sync::Arc;\n#[test]\nfn replay() {\n");
        snip.push_str(&format!("    let mut g: Graph<String, ()> = Graph::new(GraphSpecs {{ directed: {}, multi_edges: {}, self_loops: {}, ..GraphSpecs::directed() }});\n", c.specs.directed, c.specs.multi_edges, c.specs.self_loops));
        for n in &c.names {
            snip.push_str(&format!("    g.add_node(Node::from_name({:?}.to_string()));\n", n));
        }
        for &(u, v, w) in &c.edges {
            snip.push_str(&format!("    g.add_edge(Arc::new(Edge {{ u: {:?}.to_string(), v: {:?}.to_string(), weight: f64::from_bits({:#x}), attributes: None }})).unwrap();\n", c.names[u], c.names[v], w.to_bits()));
        }
        snip.push_str("    let s = graphrs::readwrite::graphml::write_graphml_string(&g).unwrap();\n    let g2 = graphrs::readwrite::graphml::read_graphml_string(&s, g.specs.clone()).unwrap();\n    // compare g and g2\n}\n");
        Violation::new(clause, call, c.label.clone(), format!("{desc}\n{detail}")).with_snippet(snip)
    };
    let doc = match guarded(|| graphml::write_graphml_string(&g)) {
        Err(pi) => {
            rec.record(mk("no_panic", "write_graphml_string", pi.msg.clone()).with_panic(pi));
            return;
        }
        Ok(Err(e)) => {
            rec.record(mk("write_failed", "write_graphml_string", format!("{e}")));
            return;
        }
        Ok(Ok(s)) => s,
    };
    let back = match guarded(|| graphml::read_graphml_string(&doc, g.specs.clone())) {
        Err(pi) => {
            rec.record(mk("no_panic", "read_graphml_string", format!("reading back panicked: {}\ndocument: {doc}", pi.msg)).with_panic(pi));
            return;
        }
        Ok(Err(e)) => {
            rec.record(mk("read_back_failed", "read_graphml_string", format!("reading back the written document failed: {:?} {}\ndocument: {doc}", e.kind, e.message)));
            return;
        }
        Ok(Ok(g2)) => g2,
    };
    let n1: Vec<String> = g.get_all_nodes().iter().map(|n| n.name.clone()).collect();
    let n2: Vec<String> = back.get_all_nodes().iter().map(|n| n.name.clone()).collect();
    if n1 != n2 {
        rec.record(mk("node_names", "write_graphml_string", format!("node names after the round trip {n2:?}, before {n1:?}\ndocument: {doc}")));
    }
    if back.specs.directed != g.specs.directed {
        rec.record(mk("directedness", "write_graphml_string", format!("directedness changed to {}", back.specs.directed)));
    }
    let (e1, e2) = (edges_canon(&g), edges_canon(&back));
    if e1 != e2 {
        let f = |v: &Vec<(String, String, u64)>| v.iter().map(|e| format!("({:?},{:?},{:?}={:#x})", e.0, e.1, f64::from_bits(e.2), e.2)).collect::<Vec<_>>().join(" ");
        rec.record(mk("edge_multiset", "write_graphml_string", format!("edges after the round trip [{}], before [{}]\ndocument: {doc}", f(&e2), f(&e1))));
    }
    if with_file {
        cn.inc("file_round_trips");
        let path = format!("/verif/work/c14_{}_{:?}.graphml", std::process::id(), std::thread::current().id()).replace(['(', ')'], "");
        let _ = std::fs::create_dir_all("/verif/work");
        // the destination already holds a longer document (an earlier export): it must be replaced, not patched
        let mut big: GS = Graph::new(specs_for(true, false, false, 3));
        for i in 0..40 {
            let _ = big.add_edge(Edge::with_weight(format!("previous-export-node-{i}"), format!("previous-export-node-{}", i + 1), i as f64 + 0.5));
        }
        if graphml::write_graphml_file(&big, &path).is_err() {
            cn.inc("file_prepopulation_failed");
        }
        match guarded(|| graphml::write_graphml_file(&g, &path)) {
            Ok(Ok(())) => {
                let on_disk = std::fs::read_to_string(&path).unwrap_or_default();
                if on_disk != doc {
                    rec.record(mk("file_equals_string", "write_graphml_file", format!("file variant wrote a different document:\n{on_disk}\nvs\n{doc}")));
                }
                match guarded(|| graphml::read_graphml_file(&path, g.specs.clone())) {
                    Ok(Ok(g3)) => {
                        if edges_canon(&g3) != e1 || g3.get_all_nodes().iter().map(|n| n.name.clone()).collect::<Vec<_>>() != n1 {
                            rec.record(mk("file_round_trip", "read_graphml_file", "graph read from the file differs from the original".into()));
                        }
                    }
                    Ok(Err(e)) => rec.record(mk("file_round_trip", "read_graphml_file", format!("Err({:?})", e.kind))),
                    Err(pi) => rec.record(mk("no_panic", "read_graphml_file", pi.msg.clone()).with_panic(pi)),
                }
            }
            Ok(Err(e)) => rec.record(mk("write_failed", "write_graphml_file", format!("{e}"))),
            Err(pi) => rec.record(mk("no_panic", "write_graphml_file", pi.msg.clone()).with_panic(pi)),
        }
        let _ = std::fs::remove_file(&path);
    }
}

/// edge shapes on k nodes with at most 3 edges (incl. loops and parallel edges); weights assigned later
fn shapes(k: usize) -> Vec<Vec<(usize, usize)>> {
    let mut pairs = vec![];
    for u in 0..k {
        for v in 0..k {
            pairs.push((u, v));
        }
    }
    let mut out: Vec<Vec<(usize, usize)>> = vec![vec![]];
    for a in 0..pairs.len() {
        out.push(vec![pairs[a]]);
        for b in a..pairs.len() {
            out.push(vec![pairs[a], pairs[b]]);
            for c in b..pairs.len() {
                out.push(vec![pairs[a], pairs[b], pairs[c]]);
            }
        }
    }
    out
}

fn weight_grid(tier: &str) -> Vec<f64> {
    let mantissas: [u64; 6] = [0, 1, (1 << 52) - 1, 1 << 51, 0x5_5555_5555_5555, 0xA_AAAA_AAAA_AAAA];
    let mut v = vec![];
    let step = if tier == "quick" { 2 } else { 1 };
    let mut e = 0u64;
    while e <= 2046 {
        for m in mantissas {
            for s in [0u64, 1] {
                v.push(f64::from_bits((s << 63) | (e << 52) | m));
            }
        }
        e += step;
    }
    v.push(f64::INFINITY);
    v.push(f64::NEG_INFINITY);
    v
}

/// documents far beyond any I/O block size, node names made of multi-byte characters, four byte alignments: the file
/// variant reads / writes in blocks, and no character may be damaged at a block boundary
fn large_document_stage(rec: &Recorder, total: &Mutex<Counters>) {
    let mut cn = Counters::default();
    for pad in 0..4usize {
        for directed in [false, true] {
            let n = 1200usize;
            let names: Vec<String> = (0..n).map(|i| format!("{}\u{e9}\u{20ac}\u{1f30d}-{i}-\u{65e5}\u{672c}", if i == 0 { "x".repeat(pad) } else { String::new() })).collect();
            let mut g: GS = Graph::new(specs_for(directed, false, false, 0));
            for nm in &names {
                g.add_node(Node::from_name(nm.clone()));
            }
            for i in 0..n {
                let _ = g.add_edge(Arc::new(Edge { u: names[i].clone(), v: names[(i * 7 + 1) % n].clone(), weight: if i % 3 == 0 { f64::NAN } else { i as f64 + 0.25 }, attributes: None }));
            }
            cn.inc("large_document_round_trips");
            let label = format!("big:{pad}:{}", directed as u8);
            let mk = |clause: &str, call: &str, detail: String| Violation::new(clause, call, label.clone(), format!("graph with {n} nodes named like {:?} (first name padded with {pad} ASCII bytes), directed={directed}\n{detail}", names[1]));
            let path = format!("/verif/work/c14_big_{}_{pad}_{}.graphml", std::process::id(), directed as u8);
            let _ = std::fs::create_dir_all("/verif/work");
            let doc = match guarded(|| graphml::write_graphml_string(&g)) {
                Ok(Ok(s)) => s,
                Ok(Err(e)) => {
                    rec.record(mk("write_failed", "write_graphml_string", format!("{e}")));
                    continue;
                }
                Err(pi) => {
                    rec.record(mk("no_panic", "write_graphml_string", pi.msg.clone()).with_panic(pi));
                    continue;
                }
            };
            let e1 = edges_canon(&g);
            let check_back = |call: &str, r: Result<Result<GS, graphrs::Error>, PanicInfo>| match r {
                Ok(Ok(back)) => {
                    let n2: Vec<String> = back.get_all_nodes().iter().map(|x| x.name.clone()).collect();
                    if n2 != names {
                        let k = (0..n2.len().min(names.len())).find(|&k| n2[k] != names[k]);
                        rec.record(mk("node_names", call, format!("node names differ after the round trip (first difference at {k:?}: {:?} vs {:?}; {} vs {} nodes)", k.map(|k| &n2[k]), k.map(|k| &names[k]), n2.len(), names.len())));
                    } else if edges_canon(&back) != e1 {
                        rec.record(mk("edge_multiset", call, "edges differ after the round trip".into()));
                    }
                }
                Ok(Err(e)) => rec.record(mk("read_back_failed", call, format!("Err({:?}) {}", e.kind, e.message))),
                Err(pi) => rec.record(mk("no_panic", call, pi.msg.clone()).with_panic(pi)),
            };
            check_back("read_graphml_string", guarded(|| graphml::read_graphml_string(&doc, g.specs.clone())));
            match guarded(|| graphml::write_graphml_file(&g, &path)) {
                Ok(Ok(())) => {
                    if std::fs::read_to_string(&path).unwrap_or_default() != doc {
                        rec.record(mk("file_equals_string", "write_graphml_file", format!("the file variant wrote a different document ({} bytes in the string variant)", doc.len())));
                    }
                    check_back("read_graphml_file", guarded(|| graphml::read_graphml_file(&path, g.specs.clone())));
                }
                Ok(Err(e)) => rec.record(mk("write_failed", "write_graphml_file", format!("{e}"))),
                Err(pi) => rec.record(mk("no_panic", "write_graphml_file", pi.msg.clone()).with_panic(pi)),
            }
            let _ = std::fs::remove_file(&path);
        }
    }
    total.lock().unwrap().merge(&cn);
}

pub fn run(tier: &str, rec: &Recorder) -> RunOutput {
    let start = Instant::now();
    let mut out = RunOutput::new("model_checking");
    let deadline = start + Duration::from_secs_f64(wall_cap_s(tier));
    let total = Mutex::new(Counters::default());
    let capped = std::sync::atomic::AtomicBool::new(false);
    let wm = weight_menu();
    let nm = NAME_MENU.len();
    // stage A: name pairs / triples x shapes x kinds (weights: one weighted + unweighted pattern per shape)
    let mut name_sets: Vec<Vec<usize>> = vec![vec![]];
    for a in 0..nm {
        name_sets.push(vec![a]);
        for b in 0..nm {
            if a != b {
                name_sets.push(vec![a, b]);
            }
        }
    }
    let triple_stride = if tier == "quick" { 3 } else { 1 };
    let mut t = 0usize;
    for a in 0..nm {
        for b in 0..nm {
            for c in 0..nm {
                if a != b && b != c && a != c {
                    if t % triple_stride == 0 {
                        name_sets.push(vec![a, b, c]);
                    }
                    t += 1;
                }
            }
        }
    }
    let sh: Vec<Vec<Vec<(usize, usize)>>> = (0..=3).map(shapes).collect();
    par_for(name_sets.len(), |i| {
        if Instant::now() > deadline {
            capped.store(true, std::sync::atomic::Ordering::Relaxed);
            return;
        }
        let mut cn = Counters::default();
        let ns = &name_sets[i];
        let names: Vec<&str> = ns.iter().map(|&k| NAME_MENU[k]).collect();
        let shape_list = &sh[names.len()];
        let sstride = if names.len() == 3 { if tier == "quick" { 11 } else { 3 } } else { 1 };
        for (si, shape) in shape_list.iter().enumerate() {
            if si % sstride != (i % sstride) {
                continue;
            }
            let loops = shape.iter().any(|e| e.0 == e.1);
            for directed in [false, true] {
                // parallel edges present? (for undirected, (u,v) and (v,u) are parallel)
                let mut keys: Vec<(usize, usize)> = shape.iter().map(|&(u, v)| if !directed && u > v { (v, u) } else { (u, v) }).collect();
                keys.sort();
                let multi = keys.windows(2).any(|w| w[0] == w[1]);
                for wpat in 0..3 {
                    let edges: Vec<(usize, usize, f64)> = shape.iter().enumerate().map(|(k, &(u, v))| (u, v, match wpat { 0 => f64::NAN, 1 => wm[(si + k * 5 + i) % wm.len()], _ => if k % 2 == 0 { f64::NAN } else { wm[(si + k + 3 * i) % wm.len()] } })).collect();
                    let variant = (si + i) % 4;
                    let c = Case { names: names.clone(), edges, specs: specs_for(directed, multi, loops, variant), label: format!("rt:{}:{}:{}:{}", ns.iter().map(|x| x.to_string()).collect::<Vec<_>>().join(","), si, directed as u8, wpat) };
                    check_case(&c, si == 1 && wpat == 1, rec, &mut cn);
                }
            }
        }
        total.lock().unwrap().merge(&cn);
    });
    // stage B: every weight of the menu and of the bit-pattern grid on a single-edge graph, both kinds
    let grid: Vec<f64> = wm.iter().cloned().filter(|w| !w.is_nan()).chain(weight_grid(tier)).collect();
    par_for((grid.len() + 255) / 256, |ch| {
        let mut cn = Counters::default();
        for gi in ch * 256..((ch + 1) * 256).min(grid.len()) {
            let w = grid[gi];
            if w.is_nan() {
                continue;
            }
            for directed in [false, true] {
                let c = Case { names: vec!["a", "b"], edges: vec![(1, 0, w)], specs: specs_for(directed, false, false, 0), label: format!("wt:{:#x}:{}", w.to_bits(), directed as u8) };
                check_case(&c, false, rec, &mut cn);
                cn.inc("weight_bit_patterns");
            }
        }
        total.lock().unwrap().merge(&cn);
    });
    large_document_stage(rec, &total);
    let t = total.into_inner().unwrap();
    for (k, v) in &t.0 {
        out.add(k, *v);
    }
    out.set("states", out.get("round_trips"));
    out.set("transitions", out.get("round_trips") + out.get("file_round_trips"));
    out.set("traces_validated_against_impl", out.get("round_trips"));
    out.set("evaluations", out.get("round_trips"));
    out.set("distinct_nontrivial", out.get("round_trips_with_weights"));
    out.set("exhaustive", !capped.load(std::sync::atomic::Ordering::Relaxed));
    out.set("name_menu", NAME_MENU.iter().map(|s| s.to_string()).collect::<Vec<_>>());
    out.sample(serde_json::json!({"names": ["a b", "&amp;", "日本"], "edges": "every shape with <= 3 edges incl. loops and parallel edges", "weights": "menu of 14 incl. -0.0, 5e-324, f64::MAX, +-inf"}));
    out.set("rule", "names from a 21-string menu (empty, spaces, XML specials, entity look-alikes, CDATA/comment terminators, non-ASCII, astral): every single name, every ordered pair, every ordered triple (thorough; strided in quick) x every edge shape with at most 3 edges on those nodes incl. self-loops and parallel edges (strided for triples) x directed/undirected x 3 weight patterns from a 14-value menu x spec variants that can hold the graph; plus every f64 bit pattern of a grid {all exponents} x {6 boundary mantissas} x {+,-} on a single edge. Oracle: read(write(g), g.specs) has the same names in the same order, same directedness, same edge multiset with to_bits-identical weights; file and string variants give the same document");
    for k in ["round_trips", "round_trips_with_weights", "weight_bit_patterns", "file_round_trips"] {
        out.require_nonzero(k);
    }
    out.assumptions = vec!["control characters are excluded (as the statement); not all 2^64 weights: all exponents with boundary mantissas".into()];
    out
}

pub fn replay(case: &str, rec: &Recorder) -> bool {
    let p: Vec<&str> = case.split(':').collect();
    let wm = weight_menu();
    let mut cn = Counters::default();
    for _ in 0..2 {
        if p[0] == "big" {
            let total = Mutex::new(Counters::default());
            large_document_stage(rec, &total);
            break;
        }
        if p[0] == "wt" && p.len() == 3 {
            let bits = u64::from_str_radix(p[1].trim_start_matches("0x"), 16).unwrap_or(0);
            let c = Case { names: vec!["a", "b"], edges: vec![(1, 0, f64::from_bits(bits))], specs: specs_for(p[2] == "1", false, false, 0), label: case.to_string() };
            check_case(&c, false, rec, &mut cn);
        } else if p[0] == "rt" && p.len() == 5 {
            let ns: Vec<usize> = p[1].split(',').filter_map(|x| x.parse().ok()).collect();
            let names: Vec<&str> = ns.iter().map(|&k| NAME_MENU[k]).collect();
            let si: usize = p[2].parse().unwrap_or(0);
            let directed = p[3] == "1";
            let wpat: usize = p[4].parse().unwrap_or(0);
            let shape = shapes(names.len())[si].clone();
            let loops = shape.iter().any(|e| e.0 == e.1);
            let mut keys: Vec<(usize, usize)> = shape.iter().map(|&(u, v)| if !directed && u > v { (v, u) } else { (u, v) }).collect();
            keys.sort();
            let multi = keys.windows(2).any(|w| w[0] == w[1]);
            // the name-set index i is needed for the weight pattern: recover it by search
            for i in 0..200_000usize {
                let edges: Vec<(usize, usize, f64)> = shape.iter().enumerate().map(|(k, &(u, v))| (u, v, match wpat { 0 => f64::NAN, 1 => wm[(si + k * 5 + i) % wm.len()], _ => if k % 2 == 0 { f64::NAN } else { wm[(si + k + 3 * i) % wm.len()] } })).collect();
                let c = Case { names: names.clone(), edges, specs: specs_for(directed, multi, loops, (si + i) % 4), label: case.to_string() };
                check_case(&c, true, rec, &mut cn);
                if i >= wm.len() * 4 {
                    break;
                }
            }
        }
    }
    rec.has_any()
}
