//! C08 — shortest-path options restrict the answer but never change it (metamorphic, E2).
use crate::c04::*;
use crate::common::*;
use crate::e2::*;
use graphrs::algorithms::shortest_path::{dijkstra, ShortestPathInfo};
use std::collections::{BTreeMap, HashMap};
use std::time::{Duration, Instant};

fn cutoffs(base: &Sssp) -> Vec<Option<f64>> {
    let mut ds: Vec<f64> = base.values().map(|v| v.0).collect();
    ds.sort_by(|a, b| a.partial_cmp(b).unwrap());
    ds.dedup();
    let mut v: Vec<Option<f64>> = vec![None];
    for (i, d) in ds.iter().enumerate() {
        v.push(Some(*d));
        if i + 1 < ds.len() {
            v.push(Some((d + ds[i + 1]) / 2.0));
        }
    }
    if let Some(m) = ds.last() {
        v.push(Some(m + 1.0));
    }
    v
}

/// checks one restricted answer `got` against the unrestricted base answer `base`
fn check_restricted(b: &Built, base: &Sssp, got: &Sssp, target: Option<usize>, cutoff: Option<f64>, first_only: bool, with_paths: bool, fail: &mut dyn FnMut(&str, String)) {
    let within = |k: &usize| cutoff.map_or(true, |c| base[k].0 <= c);
    for (k, (d, ps)) in got {
        match base.get(k) {
            None => fail("subset", format!("reports {} which the unrestricted search does not reach", b.names[*k])),
            Some((bd, bps)) => {
                if d != bd {
                    fail("distance_unchanged", format!("distance to {} is {d}, unrestricted {bd}", b.names[*k]));
                }
                if !within(k) {
                    fail("cutoff", format!("reports {} at distance {bd} beyond the cutoff {cutoff:?}", b.names[*k]));
                }
                if !with_paths {
                    if !ps.is_empty() {
                        fail("with_paths_false", format!("with_paths=false but {} has paths {ps:?}", b.names[*k]));
                    }
                } else if first_only {
                    if ps.len() != 1 || !bps.contains(&ps[0]) {
                        fail("first_only", format!("first_only paths to {}: {ps:?}, all-paths answer {bps:?}", b.names[*k]));
                    }
                } else if ps != bps {
                    fail(if Some(*k) == target { "target_paths" } else { "paths_unchanged" }, format!("paths to {}: {ps:?}, unrestricted {bps:?}", b.names[*k]));
                }
            }
        }
    }
    match target {
        None => {
            for k in base.keys() {
                if within(k) && !got.contains_key(k) {
                    fail("cutoff", format!("{} at distance {} is within the cutoff {cutoff:?} but missing", b.names[*k], base[k].0));
                }
            }
        }
        Some(t) => {
            if base.contains_key(&t) && within(&t) && !got.contains_key(&t) {
                fail("target", format!("target {} (distance {}) missing from the answer", b.names[t], base[&t].0));
            }
        }
    }
}

pub fn check_graph_c08(b: &Built, rec: &Recorder, c: &mut Counters, weighted_modes: &[bool]) -> u64 {
    let mut calls = 0u64;
    for &weighted in weighted_modes {
        if weighted && !b.edges.iter().all(|e| e.2 > 0.0) {
            continue;
        }
        let mk = |clause: &str, call: &str, sub: String, detail: String| {
            Violation::new(clause, call, sub, format!("{}\nweighted={weighted}\n{detail}", b.describe())).with_tags(b.tags()).with_snippet(b.snippet(&format!("    // {call}: {}\n", detail.replace('\n', " "))))
        };
        // base answers
        let mut base: Vec<Option<Sssp>> = vec![None; b.n];
        for s in 0..b.n {
            calls += 1;
            if let Ok(Ok(m)) = guarded(|| dijkstra::single_source(&b.g, weighted, b.names[s], None, None, false, true)) {
                base[s] = Some(canon_sssp(b, &m));
            } else {
                rec.record(mk("base_call", "dijkstra::single_source", format!("{}|base:w={}:src={}", b.case, weighted, b.names[s]), "the unrestricted call failed or panicked".into()));
                return calls;
            }
        }
        let base: Vec<Sssp> = base.into_iter().map(|x| x.unwrap()).collect();
        // symmetry and triangle inequality
        for u in 0..b.n {
            for v in 0..b.n {
                let duv = base[u].get(&v).map(|x| x.0);
                if !b.kind.directed && duv != base[v].get(&u).map(|x| x.0) {
                    rec.record(mk("symmetry", "dijkstra::single_source", format!("{}|sym:w={}:{}:{}", b.case, weighted, b.names[u], b.names[v]), format!("d({},{}) = {duv:?} but d({},{}) = {:?}", b.names[u], b.names[v], b.names[v], b.names[u], base[v].get(&u).map(|x| x.0))));
                }
                for w in 0..b.n {
                    if let (Some(a), Some(bb)) = (duv, base[v].get(&w).map(|x| x.0)) {
                        match base[u].get(&w).map(|x| x.0) {
                            Some(cc) if cc <= a + bb => {}
                            o => rec.record(mk("triangle", "dijkstra::single_source", format!("{}|tri:w={}:{}:{}:{}", b.case, weighted, b.names[u], b.names[v], b.names[w]), format!("d({0},{2}) = {o:?} > d({0},{1}) + d({1},{2}) = {a} + {bb}", b.names[u], b.names[v], b.names[w]))),
                        }
                    }
                }
            }
        }
        // every option combination, through single_source; all_pairs and multi_source per combination
        let all_names: Vec<N> = b.names.clone();
        let mut union_cutoffs: Vec<Option<f64>> = vec![None];
        for s in 0..b.n {
            for cval in cutoffs(&base[s]) {
                if !union_cutoffs.contains(&cval) {
                    union_cutoffs.push(cval);
                }
            }
        }
        for first_only in [false, true] {
            for with_paths in [false, true] {
                for target in std::iter::once(None).chain((0..b.n).map(Some)) {
                    let tname = target.map(|t| b.names[t]);
                    for s in 0..b.n {
                        for cutoff in cutoffs(&base[s]) {
                            calls += 1;
                            if cutoff.is_some() {
                                c.inc("calls_with_cutoff");
                            }
                            if !with_paths && !first_only && target.is_none() && cutoff.is_none() {
                                c.inc("fast_path_calls");
                            }
                            let sub = format!("{}|opt:w={}:src={}:t={:?}:c={:?}:fo={}:wp={}", b.case, weighted, b.names[s], tname, cutoff, first_only, with_paths);
                            match guarded(|| dijkstra::single_source(&b.g, weighted, b.names[s], tname, cutoff, first_only, with_paths)) {
                                Err(pi) => rec.record(mk("no_panic", "dijkstra::single_source", sub.clone(), pi.msg.clone()).with_panic(pi)),
                                Ok(Err(e)) => rec.record(mk("unexpected_error", "dijkstra::single_source", sub.clone(), format!("Err({:?})", e.kind))),
                                Ok(Ok(m)) => {
                                    let got = canon_sssp(b, &m);
                                    check_restricted(b, &base[s], &got, target, cutoff, first_only, with_paths, &mut |cl, d| {
                                        rec.record(mk(cl, "dijkstra::single_source", sub.clone(), format!("source={} target={tname:?} cutoff={cutoff:?} first_only={first_only} with_paths={with_paths}\n{d}", b.names[s])))
                                    });
                                }
                            }
                        }
                    }
                    // entry-point agreement (one cutoff menu for the whole graph)
                    for &cutoff in &union_cutoffs {
                        for (call, is_ap, par) in [("dijkstra::all_pairs", true, false), ("dijkstra::multi_source", false, false), ("dijkstra::all_pairs", true, true), ("dijkstra::multi_source", false, true)] {
                            if b.n == 0 {
                                continue;
                            }
                            calls += 1;
                            let sub = format!("{}|{}{}:w={}:t={:?}:c={:?}:fo={}:wp={}", b.case, if is_ap { "ap" } else { "ms" }, if par { "-par" } else { "" }, weighted, tname, cutoff, first_only, with_paths);
                            // par: the parallel code path forced (hook H6) under real rayon
                            graphrs::verif_hooks::set_parallel_override(if par { Some(true) } else { None });
                            let r: Result<Result<HashMap<N, HashMap<N, ShortestPathInfo<N>>>, graphrs::Error>, PanicInfo> = guarded(|| if is_ap { dijkstra::all_pairs(&b.g, weighted, tname, cutoff, first_only, with_paths) } else { dijkstra::multi_source(&b.g, weighted, all_names.clone(), tname, cutoff, first_only, with_paths) });
                            graphrs::verif_hooks::set_parallel_override(None);
                            match r {
                                Err(pi) => rec.record(mk("no_panic", call, sub.clone(), pi.msg.clone()).with_panic(pi)),
                                Ok(Err(e)) => rec.record(mk("unexpected_error", call, sub.clone(), format!("Err({:?})", e.kind))),
                                Ok(Ok(m)) => {
                                    if m.len() != b.n {
                                        rec.record(mk("entry_point_agreement", call, sub.clone(), format!("{} sources in the answer, {} nodes", m.len(), b.n)));
                                    }
                                    for (sname, hm) in &m {
                                        let s = idx_of(b, sname);
                                        let got = canon_sssp(b, hm);
                                        check_restricted(b, &base[s], &got, target, cutoff, first_only, with_paths, &mut |cl, d| {
                                            rec.record(mk(cl, call, sub.clone(), format!("source={sname} target={tname:?} cutoff={cutoff:?} first_only={first_only} with_paths={with_paths}\n{d}")))
                                        });
                                    }
                                }
                            }
                        }
                    }
                }
            }
        }
        // get_all_shortest_paths_involving
        for x in 0..b.n {
            calls += 1;
            let sub = format!("{}|inv:w={}:x={}", b.case, weighted, b.names[x]);
            let mut exp: Vec<(u64, Vec<Vec<usize>>)> = vec![];
            for s in 0..b.n {
                for (_t, (d, ps)) in &base[s] {
                    if ps.iter().any(|p| p.len() > 2 && p[1..p.len() - 1].contains(&x)) {
                        exp.push((d.to_bits(), ps.clone()));
                    }
                }
            }
            exp.sort();
            if !exp.is_empty() {
                c.inc("involving_nonempty");
            }
            match guarded(|| dijkstra::get_all_shortest_paths_involving(&b.g, b.names[x], weighted)) {
                Err(pi) => rec.record(mk("no_panic", "dijkstra::get_all_shortest_paths_involving", sub.clone(), pi.msg.clone()).with_panic(pi)),
                Ok(v) => {
                    let mut got: Vec<(u64, Vec<Vec<usize>>)> = v
                        .iter()
                        .map(|spi| {
                            let mut ps: Vec<Vec<usize>> = spi.paths.iter().map(|p| p.iter().map(|n| idx_of(b, n)).collect()).collect();
                            ps.sort();
                            (spi.distance.to_bits(), ps)
                        })
                        .collect();
                    got.sort();
                    if got != exp {
                        let f = |v: &Vec<(u64, Vec<Vec<usize>>)>| v.iter().map(|(d, ps)| format!("{}{:?}", f64::from_bits(*d), ps.iter().map(|p| p.iter().map(|i| b.names[*i]).collect::<String>()).collect::<Vec<_>>())).collect::<Vec<_>>().join(" ");
                        rec.record(mk("involving", "dijkstra::get_all_shortest_paths_involving", sub.clone(), format!("involving({}): got [{}], expected the pairs with {} strictly inside a shortest path: [{}]", b.names[x], f(&got), b.names[x], f(&exp))));
                    }
                }
            }
        }
    }
    calls
}

pub fn c08_families(tier: &str) -> Vec<Family> {
    // one graph costs ~10 ms here (all option combinations x targets x cutoffs x three entry points), so the
    // quick tier keeps the primed / routed / history families at n <= 2 (plus the undirected n = 3 ones)
    let mut v = primed_small("w12", 2);
    if tier == "quick" {
        for k in [US, DS, USL, DSL] {
            v.push(fam(k, 2, "w12", &ORD_ROUTES));
        }
        v.push(fam(UM, 2, "u", &ORD_ROUTES));
        v.push(fam(DM, 2, "u", &ORD_ROUTES));
        v.push(fam(US, 3, "w12", &ORD_ROUTES));
        v.push(fam_hist(DS, 2, "w12", &ORD_ONE));
        v.push(fam_hist(US, 2, "w12", &ORD_ONE));
        v.push(fam_hist(US, 3, "w12", &ORD_ONE));
        v.push(fam(US, 3, "wtiny", &ORD_ONE));
        // three-level weight alphabets on 3-node digraphs, quick: graphs with at most 3 edges
        // wf71 = {0.7, 0.1}: inexact in binary, (0.7 + 0.1) - 0.7 < 0.1 — a cutoff EQUAL to a reported distance sits
        // on the rounding boundary of any rewritten cutoff test (two-hop sums only, so every sum is one addition)
        for wa in ["w123", "wf32", "wf71"] {
            let mut f = fam(DS, 3, wa, &ORD_ONE);
            f.max_edges = 3;
            v.push(f);
        }
    } else {
        v.push(fam(DS, 3, "w123", &ORD_ALL));
        v.push(fam(DS, 3, "wf32", &ORD_TWO));
        {
            // same bounded family as the quick tier (at most three edges: every distance is one addition)
            let mut f = fam(DS, 3, "wf71", &ORD_ONE);
            f.max_edges = 3;
            v.push(f);
        }
        v.push(fam(US, 3, "wf32", &ORD_TWO));
        v.extend(route_small("w12", true));
        v.extend(hist_small("w12", false));
        v.push(fam(US, 3, "wtiny", &ORD_ONE));
        v.push(fam(DS, 3, "wtiny", &ORD_ONE));
        v.push(fam_primed(US, 3, "w12", &ORD_ONE));
        v.push(fam_primed(DS, 3, "w12", &ORD_ONE));
    }
    if tier == "quick" {
        for n in 0..=3 {
            for k in kinds_all() {
                if n == 3 && k.multi {
                    continue;
                }
                v.push(fam(k, n, "u", &ORD_ONE));
                if n <= 2 || !k.loops {
                    v.push(fam(k, n, "w12", &ORD_ONE));
                }
            }
        }
        v.push(fam(US, 4, "w12", &ORD_ONE));
        v.push(fam(US, 4, "u", &ORD_ONE));
        v.push(fam(DS, 4, "u", &ORD_ONE));
        v.push(fam(UM, 3, "w12", &ORD_ONE));
    } else {
        for n in 0..=3 {
            for k in kinds_all() {
                v.push(fam(k, n, "u", &ORD_TWO));
                if n <= 2 || !(k.multi && k.loops) {
                    v.push(fam(k, n, "w12", &ORD_TWO));
                }
            }
        }
        v.push(fam(US, 4, "w123", &ORD_TWO));
        v.push(fam(DS, 4, "u", &ORD_TWO));
        v.push(fam(DS, 4, "w12", &ORD_ONE));
        v.push(fam(US, 5, "u", &ORD_TWO));
        v.push(fam(US, 5, "w12", &ORD_ONE));
    }
    v
}

pub fn run(tier: &str, rec: &Recorder) -> RunOutput {
    let start = Instant::now();
    let mut out = RunOutput::new("model_checking");
    let deadline = start + Duration::from_secs_f64(wall_cap_s(tier));
    let stats = E2Stats::new();
    let seed = std::env::var("VERIF_SEED").ok().and_then(|s| s.parse().ok()).unwrap_or(0);
    for_each_family(&c08_families(tier), |f| {
        let modes = modes_for(f);
        for_each_graph(f, seed, deadline, &stats, |b, c| check_graph_c08(b, rec, c, &modes));
    });
    fill_e2_coverage(&mut out, &stats);
    out.set("traces_validated_against_impl", out.get("transitions"));
    out.set("distinct_nontrivial", out.get("calls_with_cutoff"));
    out.set("rule", "every labelled graph of each family; per graph and mode: base = single_source(None,None,false,true) per source; then all 16 combinations of first_only x with_paths x target in {None}+nodes x cutoff in {None, every distinct base distance, midpoints, max+1} through single_source, and the same combinations through all_pairs and multi_source; symmetry, triangle inequality, get_all_shortest_paths_involving(x) for every x. distinct_nontrivial = calls with a cutoff");
    for k in ["calls_with_cutoff", "fast_path_calls", "involving_nonempty"] {
        out.require_nonzero(k);
    }
    out.assumptions = vec!["positive weights {1,2} ({1,2,3}) or hop counts; sizes as listed; negative cutoffs are outside the statement".into()];
    out
}

pub fn replay(case: &str, rec: &Recorder) -> bool {
    let (f, _, _, _, _) = match parse_case(case) {
        Some(x) => x,
        None => return false,
    };
    let seed = std::env::var("VERIF_SEED").ok().and_then(|s| s.parse().ok()).unwrap_or(0);
    let mut lists: Vec<Vec<(u8, u8)>> = vec![];
    for tier in ["quick", "thorough"] {
        for pf in c08_families(tier) {
            if pf.kind == f.kind && pf.n == f.n && pf.walpha == f.walpha && !lists.contains(&pf.orders) {
                lists.push(pf.orders.clone());
            }
        }
    }
    let modes = modes_for(&f);
    let dummy = Recorder::new("C08", &[]);
    for orders in lists {
        for round in 0..2 {
            replay_chunk(case, &orders, 0, seed, |b, target| {
                let mut c = Counters::default();
                if target {
                    println!("round {round}: {}", b.describe());
                }
                check_graph_c08(b, if target { rec } else { &dummy }, &mut c, &modes);
            });
        }
        if rec.has_any() {
            return true;
        }
    }
    rec.has_any()
}

#[allow(dead_code)]
fn _unused(_: BTreeMap<u8, u8>) {}
