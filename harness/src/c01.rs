//! C01 — mutations follow GraphSpecs exactly; a rejected operation changes nothing.
use crate::common::*;
use crate::e1::*;
use crate::model::*;
use graphrs::{EdgeDedupeStrategy, GraphSpecs};
use std::time::{Duration, Instant};

pub struct C01Oracle;

fn spec_tags(s: &GraphSpecs) -> Vec<String> {
    let mut t = vec![];
    t.push(if s.directed { "directed" } else { "undirected" }.to_string());
    if s.multi_edges {
        t.push("multi_edges".into());
    }
    if s.self_loops {
        t.push("self_loops".into());
    }
    t
}

pub fn public_view_check(
    g: &G,
    r: &RefGraph,
    names: &[N],
    mut fail: impl FnMut(&str, &str, String),
) {
    let rn = real_nodes(g);
    if rn != r.nodes {
        fail("node_list", "Graph::get_all_nodes", format!("expected {:?} got {:?}", r.nodes, rn));
    }
    let re = real_edge_multiset(g);
    let me = r.edge_multiset();
    if re != me {
        fail("edge_multiset", "Graph::get_all_edges", format!("expected {:?} got {:?}", me, re));
    }
    for &n in names {
        let got = g.get_node(n).map(|x| (x.name, x.attributes));
        let exp = r.nodes.iter().find(|x| x.0 == n).cloned();
        if got != exp {
            fail("get_node", "Graph::get_node", format!("get_node({n}) expected {exp:?} got {got:?}"));
        }
    }
    if r.specs.multi_edges {
        for &u in names {
            for &v in names {
                if !r.has(u) || !r.has(v) {
                    continue;
                }
                let exp = r.pair_sequence(u, v);
                let got: Vec<(u64, Option<A>)> = match g.get_edges(u, v) {
                    Ok(es) => es.iter().map(|e| (wbits(e.weight), e.attributes)).collect(),
                    Err(_) => vec![],
                };
                if exp != got {
                    fail("parallel_order", "Graph::get_edges", format!("get_edges({u},{v}) expected sequence {exp:?} got {got:?}"));
                }
            }
        }
    }
}

/// A self-loop on a graph without self-loops that ALSO names an unknown node under the Error
/// missing-node policy is rejected / dropped by two policies at once; the statement does not rank
/// them, so the answer of either policy is accepted (the graph must be unchanged in both cases,
/// which the public-view and err_unchanged clauses still check).
fn either_order_ok(t: &Trans) -> bool {
    use graphrs::MissingNodeStrategy;
    let e = match t.op {
        Op::AddEdge(e) => (e.u, e.v),
        Op::AddEdgeTuple(u, v) => (*u, *v),
        _ => return false,
    };
    e.0 == e.1
        && !t.specs.self_loops
        && t.specs.missing_node_strategy == MissingNodeStrategy::Error
        && !t.ref_before.has(e.0)
        && matches!(t.real_res, ResKind::NodeNotFound | ResKind::SelfLoopsFound | ResKind::Ok)
        && (*t.real_res != ResKind::Ok || t.specs.self_loops_false_strategy == graphrs::SelfLoopsFalseStrategy::Drop)
}

impl E1Oracle for C01Oracle {
    fn warmup(&mut self, g: &G, alphabet: &Alphabet) {
        let _ = (real_nodes(g), real_edge_multiset(g), g.number_of_edges(), g.number_of_nodes());
        for &n in &alphabet.names {
            let _ = g.get_node(n);
            for &m in &alphabet.names {
                let _ = g.get_edges(n, m);
                let _ = g.get_edge(n, m);
            }
        }
    }
    fn transition(&mut self, t: &Trans, rec: &Recorder, c: &mut Counters) {
        let hist2: Vec<u16> = t.hist.iter().cloned().chain(std::iter::once(t.op_idx)).collect();
        let case = || case_id(t.spec_idx, t.alphabet.name, &hist2, "");
        let call = op_call_name(t.op);
        let snippet = || history_snippet("replay", t.specs, &ops_of(t.alphabet, &hist2), "    // compare g.get_all_nodes()/get_all_edges() with the reference model\n");
        let mut fail = |clause: &str, call_: &str, detail: String| {
            let ops: Vec<String> = ops_of(t.alphabet, &hist2).iter().map(|o| o.short()).collect();
            rec.record(
                Violation::new(clause, call_, case(), format!("specs: {}\nhistory: {}\n{}", spec_str(t.specs), ops.join(" ; "), detail))
                    .with_tags(spec_tags(t.specs))
                    .with_snippet(snippet()),
            );
        };
        c.inc("traces_validated_against_impl");
        // (a) result kind
        if t.real_res != t.ref_res && !either_order_ok(t) {
            fail("result_kind", &call, format!("expected {:?} got {:?}", t.ref_res, t.real_res));
        }
        match t.real_res {
            ResKind::Ok => c.inc("res_ok"),
            ResKind::SelfLoopsFound => c.inc("res_self_loops_found"),
            ResKind::NodeNotFound => c.inc("res_node_not_found"),
            ResKind::DuplicateEdge => c.inc("res_duplicate_edge"),
            ResKind::Other(_) => c.inc("res_other"),
        }
        // (b)(c) public view equals the model's
        public_view_check(t.g_after, t.ref_after, &t.alphabet.names, |cl, ca, d| fail(cl, if cl == "node_list" || cl == "edge_multiset" { &call } else { ca }, d));
        // (d) an error leaves every private index unchanged (for a batch: exactly the prefix was applied -> checked by (f))
        if *t.real_res != ResKind::Ok && !t.op.is_batch() && t.after != t.before {
            fail("err_unchanged", &call, format!("call returned {:?} but the graph changed: {}", t.real_res, t.before.diff(t.after)));
        }
        // (e)(f) batch == singles up to the first failure, on every private index
        if t.op.is_batch() {
            let ops_h = ops_of(t.alphabet, t.hist);
            let (mut g2, _) = build_real(t.specs, &ops_h);
            let mut first_err = ResKind::Ok;
            let mut applied = 0;
            for s in t.op.singles() {
                let k = s.apply_real(&mut g2);
                if k != ResKind::Ok {
                    first_err = k;
                    break;
                }
                applied += 1;
            }
            let s2 = snap(&g2);
            if s2 != *t.after {
                fail("batch_equals_singles", &call, format!("batch state differs from the state after the single calls: {}", t.after.diff(&s2)));
            }
            if first_err != *t.real_res {
                fail("batch_result", &call, format!("batch returned {:?}, single calls give {:?}", t.real_res, first_err));
            }
            if first_err != ResKind::Ok && applied >= 1 {
                c.inc("batch_failed_after_nonempty_prefix");
            }
        }
        // vacuity counters
        if let Op::AddEdge(e) = t.op {
            if !t.specs.multi_edges && *t.real_res == ResKind::Ok {
                let had = t.ref_before.edges.iter().find(|x| t.ref_before.same_pair(x, e.u, e.v));
                if let Some(old) = had {
                    if t.specs.edge_dedupe_strategy == EdgeDedupeStrategy::KeepLast && (old.w != e.w || old.attr != e.attr) {
                        c.inc("dup_replaced_keeplast");
                        if !t.specs.directed && old.u == e.v && old.v == e.u && e.u != e.v {
                            c.inc("dup_replaced_opposite_orientation");
                        }
                    }
                    if t.specs.edge_dedupe_strategy == EdgeDedupeStrategy::KeepFirst {
                        c.inc("dup_ignored_keepfirst");
                    }
                }
            }
            if t.specs.multi_edges && t.ref_before.edges.iter().any(|x| t.ref_before.same_pair(x, e.u, e.v)) {
                c.inc("parallel_edge_appended");
            }
        }
        if let Op::AddNode(n, a) = t.op {
            if let Some(old) = t.ref_before.nodes.iter().find(|x| x.0 == *n) {
                if old.1 != *a {
                    c.inc("node_readd_attr_changed");
                }
            }
        }
    }
}

/// new_from_nodes_and_edges as an alternative initial transition.
fn new_from_stage(specs_list: &[usize], alphabet: &Alphabet, max_nodes: usize, max_edges: usize, rec: &Recorder) -> Counters {
    let node_ops: Vec<(N, Option<A>)> = alphabet
        .ops
        .iter()
        .filter_map(|o| if let Op::AddNode(n, a) = o { Some((*n, *a)) } else { None })
        .collect();
    let edge_ops: Vec<EdgeSpec> = alphabet.ops.iter().filter_map(|o| if let Op::AddEdge(e) = o { Some(e.clone()) } else { None }).collect();
    fn seqs<T: Clone>(items: &[T], max: usize) -> Vec<Vec<T>> {
        let mut out: Vec<Vec<T>> = vec![vec![]];
        let mut last: Vec<Vec<T>> = vec![vec![]];
        for _ in 0..max {
            let mut nx = vec![];
            for s in &last {
                for i in items {
                    let mut s2 = s.clone();
                    s2.push(i.clone());
                    nx.push(s2);
                }
            }
            out.extend(nx.iter().cloned());
            last = nx;
        }
        out
    }
    let nss = seqs(&node_ops, max_nodes);
    let ess = seqs(&edge_ops, max_edges);
    let total = std::sync::Mutex::new(Counters::default());
    par_for(specs_list.len(), |i| {
        let si = specs_list[i];
        let specs = spec_from_index(si);
        let mut c = Counters::default();
        for ns in &nss {
            for es in &ess {
                c.inc("new_from_calls");
                c.inc("traces_validated_against_impl");
                let mut r = RefGraph::new(specs.clone());
                for (n, a) in ns {
                    r.add_node(n, *a);
                }
                let mut rres = ResKind::Ok;
                for e in es {
                    let k = r.add_edge(e);
                    if k != ResKind::Ok {
                        rres = k;
                        break;
                    }
                }
                let case = format!("nf:{si}:{}:{:?}|{:?}", alphabet.name, ns, es.iter().map(|e| (e.u, e.v, wstr(e.w), e.attr)).collect::<Vec<_>>());
                let got = guarded(|| G::new_from_nodes_and_edges(ns.iter().map(|(n, a)| node_arc(n, *a)).collect(), es.iter().map(|e| e.arc()).collect(), specs.clone()));
                let mut fail = |clause: &str, detail: String| {
                    rec.record(Violation::new(clause, "Graph::new_from_nodes_and_edges", case.clone(), format!("specs: {}\n{}", spec_str(&specs), detail)).with_tags(spec_tags(&specs)));
                };
                match got {
                    Err(pi) => rec.record(Violation::new("no_panic", "Graph::new_from_nodes_and_edges", case.clone(), pi.msg.clone()).with_panic(pi)),
                    Ok(Err(e)) => {
                        let k = ResKind::of_kind(&e.kind);
                        if k != rres {
                            fail("result_kind", format!("expected {rres:?} got {k:?}"));
                        }
                        c.inc("new_from_err");
                    }
                    Ok(Ok(g)) => {
                        if rres != ResKind::Ok {
                            fail("result_kind", format!("expected {rres:?} got Ok"));
                        } else {
                            public_view_check(&g, &r, &alphabet.names, |cl, _ca, d| fail(cl, d));
                            // same private state as the incremental build
                            let mut g2 = G::new(specs.clone());
                            for (n, a) in ns {
                                g2.add_node(node_arc(n, *a));
                            }
                            for e in es {
                                let _ = g2.add_edge(e.arc());
                            }
                            let (s1, s2) = (snap(&g), snap(&g2));
                            if s1 != s2 {
                                fail("new_from_equals_incremental", s1.diff(&s2));
                            }
                        }
                    }
                }
            }
        }
        total.lock().unwrap().merge(&c);
    });
    total.into_inner().unwrap()
}

/// names for the long-batch stage (static strings, deliberately not in sorted order of creation)
fn long_names() -> &'static [N] {
    static NAMES: std::sync::OnceLock<Vec<N>> = std::sync::OnceLock::new();
    NAMES.get_or_init(|| (0..4200).map(|i| -> N { Box::leak(format!("m{:04}", (i * 7919) % 4200).into_boxed_str()) }).collect())
}

/// Long batches: lengths around round numbers (where a size-gated fast path would switch on), with a
/// failing edge at the start / middle / end and edges naming NEW nodes after it. Each batch call is
/// compared with the reference model and, on every private index, with the single calls.
fn long_batch_stage(tier: &str, rec: &Recorder) -> Counters {
    let lens: Vec<usize> = if tier == "quick" { vec![2, 9, 17, 32, 33, 65, 100, 129, 257, 513, 1025] } else { vec![2, 3, 5, 9, 10, 11, 16, 17, 20, 21, 31, 32, 33, 50, 51, 63, 64, 65, 100, 101, 127, 128, 129, 255, 256, 257, 500, 501, 512, 513, 1000, 1001, 1024, 1025, 2049] };
    let names = long_names();
    let total = std::sync::Mutex::new(Counters::default());
    par_for(96, |si| {
        let specs = spec_from_index(si);
        let mut c = Counters::default();
        for &len in &lens {
            for fail_at in [0usize, len / 2, len - 1] {
                for fail_kind in 0..3 {
                    // edges i: (x_{2i} -> x_{2i+1}) all new nodes; the failing edge is a duplicate of edge 0 (either
                    // orientation) or a self-loop; two pre-existing nodes / one pre-existing edge in variant `pre`
                    for pre in [false, true] {
                        let mut es: Vec<EdgeSpec> = (0..len).map(|i| EdgeSpec { u: names[2 * i], v: names[2 * i + 1], w: f(1.0 + (i % 3) as f64), attr: None }).collect();
                        let special = match fail_kind {
                            0 => EdgeSpec { u: names[0], v: names[1], w: f(9.0), attr: None },
                            1 => EdgeSpec { u: names[1], v: names[0], w: f(9.0), attr: None },
                            _ => EdgeSpec { u: names[2 * fail_at], v: names[2 * fail_at], w: f(9.0), attr: None },
                        };
                        if fail_at == 0 && fail_kind < 2 && !pre {
                            continue; // a duplicate needs an earlier copy
                        }
                        es[fail_at] = special;
                        let mut pre_ops: Vec<Op> = vec![];
                        if pre {
                            pre_ops.push(Op::AddNode(names[1], Some(1)));
                            pre_ops.push(Op::AddNode(names[0], None));
                            pre_ops.push(Op::AddEdge(EdgeSpec { u: names[0], v: names[1], w: f(5.0), attr: None }));
                        }
                        for entry in 0..3 {
                            c.inc("long_batches");
                            c.inc("traces_validated_against_impl");
                            let case = format!("lb:{si}:{len}:{fail_at}:{fail_kind}:{}:{entry}", pre as u8);
                            let mut r = RefGraph::new(specs.clone());
                            let (mut g, _) = build_real(&specs, &pre_ops);
                            for o in &pre_ops {
                                o.apply_ref(&mut r);
                            }
                            let op = match entry {
                                0 => Op::AddEdges(es.clone()),
                                1 => Op::AddEdgeTuples(es.iter().map(|e| (e.u, e.v)).collect()),
                                _ => Op::AddEdges(es.clone()),
                            };
                            let mut fail = |clause: &str, call: &str, detail: String| {
                                rec.record(Violation::new(clause, call, case.clone(), format!("specs: {}\nbatch of {len} edges, special edge #{fail_at} = {}->{} (kind {fail_kind}), pre-existing edge: {pre}\n{detail}", spec_str(&specs), es[fail_at].u, es[fail_at].v)).with_tags(vec!["long_batch".into()]));
                            };
                            let real = if entry == 2 {
                                // new_from_nodes_and_edges with the pre-existing nodes given as nodes (the pre-existing edge first in the list)
                                let nodes: Vec<std::sync::Arc<graphrs::Node<N, A>>> = if pre { vec![node_arc(names[1], Some(1)), node_arc(names[0], None)] } else { vec![] };
                                let mut all = vec![];
                                if pre {
                                    all.push(EdgeSpec { u: names[0], v: names[1], w: f(5.0), attr: None });
                                }
                                all.extend(es.iter().cloned());
                                match guarded(|| G::new_from_nodes_and_edges(nodes, all.iter().map(|e| e.arc()).collect(), specs.clone())) {
                                    Err(pi) => {
                                        rec.record(Violation::new("no_panic", "Graph::new_from_nodes_and_edges", case.clone(), pi.msg.clone()).with_panic(pi));
                                        continue;
                                    }
                                    Ok(Ok(g2)) => {
                                        g = g2;
                                        ResKind::Ok
                                    }
                                    Ok(Err(e)) => ResKind::of_kind(&e.kind),
                                }
                            } else {
                                match guarded(|| op.apply_real(&mut g)) {
                                    Ok(k) => k,
                                    Err(pi) => {
                                        rec.record(Violation::new("no_panic", &op_call_name(&op), case.clone(), pi.msg.clone()).with_panic(pi));
                                        continue;
                                    }
                                }
                            };
                            let exp = if entry == 1 { Op::AddEdgeTuples(es.iter().map(|e| (e.u, e.v)).collect()).apply_ref(&mut r) } else { op.apply_ref(&mut r) };
                            if real != exp {
                                c.inc("long_batch_result_mismatch");
                                fail("result_kind", &op_call_name(&op), format!("expected {exp:?} got {real:?}"));
                            }
                            if exp != ResKind::Ok {
                                c.inc("long_batches_failing");
                            }
                            if entry == 2 && real != ResKind::Ok {
                                continue; // no graph is returned
                            }
                            if real_nodes(&g) != r.nodes {
                                fail("node_list", &op_call_name(&op), format!("{} nodes in the graph, {} in the model; first difference at position {:?}", g.number_of_nodes(), r.nodes.len(), real_nodes(&g).iter().zip(r.nodes.iter()).position(|(a, b)| a != b)));
                            }
                            if real_edge_multiset(&g) != r.edge_multiset() {
                                fail("edge_multiset", &op_call_name(&op), format!("{} edges in the graph, {} in the model", g.get_all_edges().len(), r.edges.len()));
                            }
                        }
                    }
                }
            }
        }
        total.lock().unwrap().merge(&c);
    });
    total.into_inner().unwrap()
}

pub fn run(tier: &str, rec: &Recorder) -> RunOutput {
    let start = Instant::now();
    let mut out = RunOutput::new("model_checking");
    let cap = wall_cap_s(tier);
    let stages: Vec<(&'static str, usize, usize)> = if tier == "quick" {
        vec![("full2", 4, 2), ("mix2", 5, 0), ("sliceWA2", 4, 0), ("sliceWA2@alias", 3, 0)]
    } else {
        vec![("full2", 6, 3), ("full3", 4, 1), ("full3b", 2, 1), ("sliceW3", 5, 0), ("sliceA2", 7, 0), ("sliceWA2", 7, 0), ("sliceWA2@alias", 5, 0)]
    };
    let n_st = stages.len() as f64;
    let mut stage_notes = vec![];
    for (alpha, depth, bdepth) in stages {
        let p = E1Params {
            alphabet: alpha,
            depth,
            batch_depth: bdepth,
            specs: all_specs_costly_first(),
            max_states_per_spec: 60_000_000,
            deadline: start + Duration::from_secs_f64(cap * (stage_notes.len() as f64 + 1.0) / n_st),
        };
        let r = explore(&p, rec, || C01Oracle);
        stage_notes.push(serde_json::json!({"alphabet": alpha, "ops": alphabet_by_name(alpha).ops.len(), "depth": depth, "batch_ops_from_depth_le": bdepth,
            "states": r.states, "transitions": r.transitions, "depth_completed_all_specs": r.max_depth_completed, "capped": r.capped}));
        let was_ex = out.coverage.get("exhaustive").and_then(|v| v.as_bool()).unwrap_or(true);
        fill_e1_coverage(&mut out, &r, &p);
        let now_ex = out.coverage.get("exhaustive").and_then(|v| v.as_bool()).unwrap_or(true);
        out.set("exhaustive", was_ex && now_ex);
    }
    out.set("stages", serde_json::Value::Array(stage_notes));
    let a = alphabet_by_name(if tier == "quick" { "full2" } else { "full3" });
    let c = new_from_stage(&(0..96).collect::<Vec<_>>(), &a, if tier == "quick" { 1 } else { 2 }, 2, rec);
    for (k, v) in &c.0 {
        out.add(k, *v);
    }
    let lb = long_batch_stage(tier, rec);
    for (k, v) in &lb.0 {
        out.add(k, *v);
    }
    out.set(
        "rule",
        "every history over the alphabet (add_node x attrs, add_edge x ordered pairs x weights {NaN,1,2} (+1 attribute variant), add_edge_tuple, add_nodes, add_edges/add_edge_tuples batches) up to the depth bound from every reached state, for all 96 GraphSpecs; states are deduplicated by the canonical snapshot of all private indexes; each transition is compared with the reference model",
    );
    out.set("evaluations", out.get("transitions") + out.get("new_from_calls"));
    out.set("distinct_nontrivial", out.get("states"));
    for k in [
        "res_ok",
        "res_self_loops_found",
        "res_node_not_found",
        "res_duplicate_edge",
        "dup_replaced_keeplast",
        "dup_replaced_opposite_orientation",
        "dup_ignored_keepfirst",
        "parallel_edge_appended",
        "node_readd_attr_changed",
        "batch_failed_after_nonempty_prefix",
        "new_from_err",
        "long_batches_failing",
    ] {
        out.require_nonzero(k);
    }
    out.assumptions = vec![
        "names restricted to {a,b,c} (inserted in non-sorted order), weights to {NaN,1,2}, attributes to {None,1,2}".into(),
        "history depth bounded as reported; the state key is a 128-bit hash of the full canonical snapshot".into(),
    ];
    out
}

pub fn replay(case: &str, rec: &Recorder) -> bool {
    if case.starts_with("lb:") {
        let _ = long_batch_stage("thorough", rec);
        return rec.has_any();
    }
    if let Some(pc) = parse_case(case) {
        if pc.hist.is_empty() {
            return false;
        }
        let specs = spec_from_index(pc.spec_idx);
        let (pre, last) = pc.hist.split_at(pc.hist.len() - 1);
        let ops_h = ops_of(&pc.alphabet, pre);
        let op = &pc.alphabet.ops[last[0] as usize];
        for round in 0..2 {
            let (g0, _) = build_real(&specs, &ops_h);
            let before = snap(&g0);
            let ref_before = replay_ref(&specs, &ops_h);
            let (mut g, _) = build_real(&specs, &ops_h);
            let res = guarded(|| op.apply_real(&mut g));
            println!("round {round}: specs=[{}] history={:?} op={} -> {:?}", spec_str(&specs), ops_h.iter().map(|o| o.short()).collect::<Vec<_>>(), op.short(), res.as_ref().map_err(|p| p.msg.clone()));
            let real_res = match res {
                Ok(r) => r,
                Err(_) => return true,
            };
            let after = snap(&g);
            let mut ref_after = ref_before.clone();
            let ref_res = op.apply_ref(&mut ref_after);
            println!("  model: {:?}; nodes real={:?} model={:?}; edges real={:?} model={:?}", ref_res, real_nodes(&g), ref_after.nodes, real_edge_multiset(&g), ref_after.edge_multiset());
            let mut c = Counters::default();
            C01Oracle.transition(
                &Trans { spec_idx: pc.spec_idx, specs: &specs, alphabet: &pc.alphabet, hist: pre, op_idx: last[0], op, before: &before, after: &after, g_after: &g, real_res: &real_res, ref_before: &ref_before, ref_after: &ref_after, ref_res: &ref_res },
                rec,
                &mut c,
            );
        }
        return rec.has_any();
    }
    println!("replay of new_from cases: re-run the check; case = {case}");
    false
}
