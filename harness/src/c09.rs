//! C09 — counts, degrees, density and the adjacency matrix agree with the edge multiset.
use crate::c02::{Base, ABSENT};
use crate::common::*;
use crate::e1::*;
use crate::model::*;
use graphrs::algorithms::centrality::degree::degree_centrality;
use std::time::{Duration, Instant};

pub struct C09Oracle {
    pub weighted: bool,
}

fn close(a: f64, b: f64) -> bool {
    a == b || (a - b).abs() <= 1e-9 * a.abs().max(b.abs()).max(1.0)
}

pub fn c09_tags(b: &Base) -> Vec<String> {
    let mut t = crate::c02::tags_for(b);
    if b.multi {
        let mut ps: Vec<(N, N)> = b.edges.iter().map(|e| if !b.directed && e.0 > e.1 { (e.1, e.0) } else { (e.0, e.1) }).collect();
        ps.sort();
        if ps.windows(2).any(|w| w[0] == w[1]) {
            t.push("has_parallel_pair".into());
        }
    }
    if b.edges.iter().any(|e| e.2 == NAN_BITS) {
        t.push("unweighted_edges".into());
    }
    if !b.directed && b.edges.iter().any(|e| e.0 != e.1) {
        t.push("undirected_nonloop_edge".into());
    }
    t
}

/// all C09 checks on one graph; `weighted` = every edge carries a real weight
pub fn check_counts(g: &G, weighted: bool, fail: &mut dyn FnMut(&str, &str, String)) {
    let b = Base::of(g);
    let n = b.nodes.len();
    let m = b.edges.len();
    let d = b.directed;
    let w = |e: &SEdge| f64::from_bits(e.2);
    if g.number_of_nodes() != n {
        fail("number_of_nodes", "Graph::number_of_nodes", format!("{} vs {n}", g.number_of_nodes()));
    }
    if g.number_of_edges() != m {
        fail("number_of_edges", "Graph::number_of_edges", format!("number_of_edges() = {}, stored edges (parallel edges individually) = {m}", g.number_of_edges()));
    }
    if g.size(false) != m as f64 {
        fail("size_unweighted", "Graph::size", format!("size(false) = {}, stored edges = {m}", g.size(false)));
    }
    if weighted {
        let sw: f64 = b.edges.iter().map(w).sum();
        if !close(g.size(true), sw) {
            fail("size_weighted", "Graph::size", format!("size(true) = {}, sum of weights = {sw}", g.size(true)));
        }
    }
    // per-node degrees
    let (mut sd, mut si, mut so) = (0usize, 0usize, 0usize);
    let (mut swd, mut swi, mut swo) = (0.0, 0.0, 0.0);
    let all_deg = g.get_degree_for_all_nodes();
    let all_in = g.get_in_degree_for_all_nodes();
    let all_out = g.get_out_degree_for_all_nodes();
    let all_wdeg = if weighted { Some(g.get_weighted_degree_for_all_nodes()) } else { None };
    let all_win = g.get_weighted_in_degree_for_all_nodes();
    let all_wout = g.get_weighted_out_degree_for_all_nodes();
    if all_deg.len() != n {
        fail("degree_map", "Graph::get_degree_for_all_nodes", format!("{} entries for {n} nodes", all_deg.len()));
    }
    for (label, r) in [("Graph::get_in_degree_for_all_nodes", &all_in), ("Graph::get_out_degree_for_all_nodes", &all_out)] {
        match r {
            Ok(mm) if d => {
                if mm.len() != n {
                    fail("degree_map", label, format!("{} entries for {n} nodes", mm.len()));
                }
            }
            Err(e) if !d => {
                if format!("{:?}", e.kind) != "WrongMethod" {
                    fail("kind_guard", label, format!("undirected: Err({:?})", e.kind));
                }
            }
            Ok(_) => fail("kind_guard", label, "undirected graph: expected WrongMethod, got Ok".into()),
            Err(e) => fail("degree_map", label, format!("directed: Err({:?})", e.kind)),
        }
    }
    for (label, r) in [("Graph::get_weighted_in_degree_for_all_nodes", &all_win), ("Graph::get_weighted_out_degree_for_all_nodes", &all_wout)] {
        match r {
            Ok(_) if d => {}
            Err(e) if !d => {
                if format!("{:?}", e.kind) != "WrongMethod" {
                    fail("kind_guard", label, format!("undirected: Err({:?})", e.kind));
                }
            }
            Ok(_) => fail("kind_guard", label, "undirected graph: expected WrongMethod, got Ok".into()),
            Err(e) => fail("degree_map", label, format!("directed: Err({:?})", e.kind)),
        }
    }
    let dc = degree_centrality(g);
    for (x, _) in &b.nodes {
        let loops = b.edges.iter().filter(|e| e.0 == *x && e.1 == *x).count();
        let nonloops = b.edges.iter().filter(|e| (e.0 == *x) != (e.1 == *x)).count();
        let exp_deg = nonloops + 2 * loops;
        let exp_in = b.edges.iter().filter(|e| e.1 == *x).count();
        let exp_out = b.edges.iter().filter(|e| e.0 == *x).count();
        let deg = g.get_node_degree(x);
        if deg != Some(exp_deg) {
            fail("degree", "Graph::get_node_degree", format!("get_node_degree({x}) = {deg:?}, expected {exp_deg} ({nonloops} non-loop edges + 2 x {loops} loops)"));
        }
        if all_deg.get(x).copied() != deg {
            fail("degree_map", "Graph::get_degree_for_all_nodes", format!("[{x}] = {:?} but get_node_degree = {deg:?}", all_deg.get(x)));
        }
        sd += deg.unwrap_or(0);
        let (ind, outd) = (g.get_node_in_degree(x), g.get_node_out_degree(x));
        if d {
            if ind != Some(exp_in) {
                fail("in_degree", "Graph::get_node_in_degree", format!("get_node_in_degree({x}) = {ind:?}, expected {exp_in}"));
            }
            if outd != Some(exp_out) {
                fail("out_degree", "Graph::get_node_out_degree", format!("get_node_out_degree({x}) = {outd:?}, expected {exp_out}"));
            }
            if let (Some(a), Some(bb), Some(c)) = (deg, ind, outd) {
                if a != bb + c {
                    fail("degree_is_in_plus_out", "Graph::get_node_degree", format!("node {x}: degree {a} != in {bb} + out {c}"));
                }
            }
            si += ind.unwrap_or(0);
            so += outd.unwrap_or(0);
            if let Ok(mm) = &all_in {
                if mm.get(x).copied() != ind {
                    fail("degree_map", "Graph::get_in_degree_for_all_nodes", format!("[{x}] = {:?} but per-node = {ind:?}", mm.get(x)));
                }
            }
            if let Ok(mm) = &all_out {
                if mm.get(x).copied() != outd {
                    fail("degree_map", "Graph::get_out_degree_for_all_nodes", format!("[{x}] = {:?} but per-node = {outd:?}", mm.get(x)));
                }
            }
        } else if ind.is_some() || outd.is_some() {
            fail("kind_guard", "Graph::get_node_in_degree", format!("undirected graph: in/out degree of {x} = {ind:?}/{outd:?}, expected None"));
        }
        if weighted {
            let exp_w: f64 = b.edges.iter().filter(|e| e.0 == *x || e.1 == *x).map(|e| if e.0 == e.1 { 2.0 * w(e) } else { w(e) }).sum();
            let exp_wi: f64 = b.edges.iter().filter(|e| e.1 == *x).map(w).sum();
            let exp_wo: f64 = b.edges.iter().filter(|e| e.0 == *x).map(w).sum();
            let wd = g.get_node_weighted_degree(x);
            if wd.map_or(true, |v| !close(v, exp_w)) {
                fail("weighted_degree", "Graph::get_node_weighted_degree", format!("({x}) = {wd:?}, expected {exp_w}"));
            }
            swd += wd.unwrap_or(0.0);
            if let Some(mm) = &all_wdeg {
                if mm.get(x).copied().map(|v| v.to_bits()) != wd.map(|v| v.to_bits()) {
                    fail("degree_map", "Graph::get_weighted_degree_for_all_nodes", format!("[{x}] = {:?} but per-node = {wd:?}", mm.get(x)));
                }
            }
            let (wi, wo) = (g.get_node_weighted_in_degree(x), g.get_node_weighted_out_degree(x));
            if d {
                if wi.map_or(true, |v| !close(v, exp_wi)) {
                    fail("weighted_in_degree", "Graph::get_node_weighted_in_degree", format!("({x}) = {wi:?}, expected {exp_wi}"));
                }
                if wo.map_or(true, |v| !close(v, exp_wo)) {
                    fail("weighted_out_degree", "Graph::get_node_weighted_out_degree", format!("({x}) = {wo:?}, expected {exp_wo}"));
                }
                if let (Some(a), Some(bb), Some(c)) = (wd, wi, wo) {
                    if !close(a, bb + c) {
                        fail("degree_is_in_plus_out", "Graph::get_node_weighted_degree", format!("node {x}: weighted degree {a} != in {bb} + out {c}"));
                    }
                }
                swi += wi.unwrap_or(0.0);
                swo += wo.unwrap_or(0.0);
                if let Ok(mm) = &all_win {
                    if mm.get(x).copied().map(|v| v.to_bits()) != wi.map(|v| v.to_bits()) {
                        fail("degree_map", "Graph::get_weighted_in_degree_for_all_nodes", format!("[{x}] = {:?} but per-node = {wi:?}", mm.get(x)));
                    }
                }
                if let Ok(mm) = &all_wout {
                    if mm.get(x).copied().map(|v| v.to_bits()) != wo.map(|v| v.to_bits()) {
                        fail("degree_map", "Graph::get_weighted_out_degree_for_all_nodes", format!("[{x}] = {:?} but per-node = {wo:?}", mm.get(x)));
                    }
                }
            } else if wi.is_some() || wo.is_some() {
                fail("kind_guard", "Graph::get_node_weighted_in_degree", format!("undirected graph: weighted in/out degree of {x} = {wi:?}/{wo:?}, expected None"));
            }
        }
        if n >= 2 {
            let exp = exp_deg as f64 / (n as f64 - 1.0);
            match dc.get(x) {
                Some(v) if close(*v, exp) => {}
                o => fail("degree_centrality", "centrality::degree::degree_centrality", format!("[{x}] = {o:?}, expected degree/(n-1) = {exp}")),
            }
        }
    }
    if dc.len() != n {
        fail("degree_centrality", "centrality::degree::degree_centrality", format!("{} entries for {n} nodes", dc.len()));
    }
    // handshake identities on the library's own numbers
    if sd != 2 * g.get_all_edges().len() {
        fail("handshake", "Graph::get_node_degree", format!("sum of degrees {sd} != 2 x {} edges", g.get_all_edges().len()));
    }
    if d && (si != m || so != m) {
        fail("handshake", "Graph::get_node_in_degree", format!("sum of in-degrees {si} / out-degrees {so} != {m} edges"));
    }
    if weighted {
        let sw: f64 = b.edges.iter().map(w).sum();
        if !close(swd, 2.0 * sw) {
            fail("handshake", "Graph::get_node_weighted_degree", format!("sum of weighted degrees {swd} != 2 x total weight {sw}"));
        }
        if d && (!close(swi, sw) || !close(swo, sw)) {
            fail("handshake", "Graph::get_node_weighted_in_degree", format!("sum of weighted in {swi} / out {swo} != total weight {sw}"));
        }
    }
    // absent node
    if g.get_node_degree(ABSENT).is_some() || g.get_node_in_degree(ABSENT).is_some() || g.get_node_out_degree(ABSENT).is_some() || g.get_node_weighted_degree(ABSENT).is_some() {
        fail("absent_node", "Graph::get_node_degree", "a degree query for an absent node returned Some".into());
    }
    // density
    if !b.multi && n >= 2 {
        let exp = m as f64 / (n as f64 * (n as f64 - 1.0)) * if d { 1.0 } else { 2.0 };
        let got = g.get_density();
        if !close(got, exp) {
            fail("density", "Graph::get_density", format!("get_density() = {got}, expected {exp} (m={m}, n={n})"));
        }
    }
    // adjacency matrix
    match g.get_sparse_adjacency_matrix() {
        Err(e) => {
            if !(b.multi && format!("{:?}", e.kind) == "WrongMethod") {
                fail("matrix", "Graph::get_sparse_adjacency_matrix", format!("Err({:?})", e.kind));
            }
        }
        Ok(mat) => {
            if b.multi {
                fail("kind_guard", "Graph::get_sparse_adjacency_matrix", "multi-edge graph: expected WrongMethod, got Ok".into());
            } else {
                if mat.rows() != n || mat.cols() != n {
                    fail("matrix", "Graph::get_sparse_adjacency_matrix", format!("shape {}x{} for {n} nodes", mat.rows(), mat.cols()));
                } else {
                    for i in 0..n {
                        for j in 0..n {
                            let (a, z) = (b.nodes[i].0, b.nodes[j].0);
                            let es = b.pair(a, z);
                            let exp = match es.first() {
                                None => 0.0,
                                Some(e) => {
                                    if e.2 == NAN_BITS {
                                        1.0
                                    } else {
                                        w(e)
                                    }
                                }
                            };
                            let got = mat.get(i, j).copied().unwrap_or(0.0);
                            if !(got == exp) {
                                fail(
                                    if es.first().map_or(false, |e| e.2 == NAN_BITS) { "matrix_unweighted_entry" } else if !d && i > j { "matrix_symmetry" } else { "matrix_entry" },
                                    "Graph::get_sparse_adjacency_matrix",
                                    format!("entry ({i},{j}) [{a}->{z}] = {got}, expected {exp}"),
                                );
                            }
                        }
                    }
                }
            }
        }
    }
}

impl E1Oracle for C09Oracle {
    fn warmup(&mut self, g: &G, _alphabet: &Alphabet) {
        let w = self.weighted;
        check_counts(g, w, &mut |_, _, _| {});
    }
    fn fingerprint(&mut self, g: &G, alphabet: &Alphabet) -> u64 {
        let mut h = 0u64;
        fp_mix(&mut h, g.number_of_nodes() as u64);
        fp_mix(&mut h, g.number_of_edges() as u64);
        fp_mix(&mut h, g.size(false).to_bits());
        fp_mix(&mut h, g.get_density().to_bits());
        for &n in &alphabet.names {
            fp_mix(&mut h, g.get_node_degree(n).map_or(u64::MAX, |d| d as u64));
            fp_mix(&mut h, g.get_node_in_degree(n).map_or(u64::MAX, |d| d as u64));
            fp_mix(&mut h, g.get_node_out_degree(n).map_or(u64::MAX, |d| d as u64));
            if self.weighted {
                fp_mix(&mut h, g.get_node_weighted_degree(n).map_or(u64::MAX, |d| d.to_bits()));
            }
        }
        h
    }
    fn state(&mut self, s: &StateCtx, rec: &Recorder, c: &mut Counters) {
        c.inc("states_checked");
        let b = Base::of(s.g);
        let tags = c09_tags(&b);
        if tags.iter().any(|t| t == "directed_self_loop") {
            c.inc("states_directed_self_loop");
        }
        if tags.iter().any(|t| t == "has_parallel_pair") {
            c.inc("states_parallel_edges");
        }
        let mut fail = |clause: &str, call: &str, detail: String| {
            let ops: Vec<String> = ops_of(s.alphabet, s.hist).iter().map(|o| o.short()).collect();
            rec.record(
                Violation::new(clause, call, case_id(s.spec_idx, s.alphabet.name, s.hist, ""), format!("specs: {}\nhistory: {}\nnodes: {:?}\nstored edges: {:?}\n{}", spec_str(s.specs), ops.join(" ; "), b.nodes.iter().map(|x| x.0).collect::<Vec<_>>(), b.edges.iter().map(|e| (e.0, e.1, wstr(e.2))).collect::<Vec<_>>(), detail))
                    .with_tags(tags.clone())
                    .with_snippet(history_snippet("replay", s.specs, &ops_of(s.alphabet, s.hist), &format!("    // {call}: {}\n", detail.replace('\n', " ")))),
            );
        };
        let mut weighted = self.weighted;
        if weighted && b.edges.iter().any(|e| e.2 == NAN_BITS) {
            // a state with an unweighted edge in a weighted stage (mixed alphabets): the weighted aggregates are called
            // but not judged (NaN sums); what they leave behind is judged on the next uniformly weighted state
            let _ = guarded(|| check_counts(s.g, true, &mut |_, _, _| {}));
            weighted = false;
        }
        let r = guarded(|| check_counts(s.g, weighted, &mut fail));
        if let Err(pi) = r {
            rec.record(Violation::new("no_panic", "count/degree query", case_id(s.spec_idx, s.alphabet.name, s.hist, ""), pi.msg.clone()).with_panic(pi).with_tags(tags.clone()));
        }
    }
}

pub fn run(tier: &str, rec: &Recorder) -> RunOutput {
    let start = Instant::now();
    let mut out = RunOutput::new("model_checking");
    let cap = wall_cap_s(tier);
    let stages: Vec<(&'static str, usize, bool)> = if tier == "quick" { vec![("w2", 5, true), ("w3s", 3, true), ("nan2", 5, false), ("w2@alias", 4, true), ("w2b", 3, true), ("mix2", 3, true), ("winf2", 3, true)] } else { vec![("w2", 6, true), ("w3", 4, true), ("w3s", 5, true), ("nan3", 5, false), ("w2@alias", 6, true), ("nan3@alias", 4, false), ("w2b", 4, true), ("mix2", 4, true), ("winf2", 3, true)] };
    let n_st = stages.len() as f64;
    let mut notes = vec![];
    let mut ex = true;
    for (alpha, depth, weighted) in stages {
        let p = E1Params {
            alphabet: alpha,
            depth,
            batch_depth: if alpha.ends_with("2b") { 2 } else { 0 },
            specs: all_specs_costly_first(),
            max_states_per_spec: 60_000_000,
            deadline: start + Duration::from_secs_f64(cap * (notes.len() as f64 + 1.0) / n_st),
        };
        let r = explore(&p, rec, || C09Oracle { weighted });
        notes.push(serde_json::json!({"alphabet": alpha, "weighted": weighted, "depth": depth, "states": r.states, "transitions": r.transitions, "depth_completed_all_specs": r.max_depth_completed, "capped": r.capped}));
        fill_e1_coverage(&mut out, &r, &p);
        ex &= !r.capped;
    }
    {
        let mut c = Counters::default();
        crate::large::c09_large(tier, rec, &mut c);
        for (k, v) in &c.0 {
            out.add(k, *v);
        }
    }
    out.set("exhaustive", ex);
    out.set("stages", serde_json::Value::Array(notes));
    out.set("traces_validated_against_impl", out.get("states_checked"));
    out.set("evaluations", out.get("states_checked"));
    out.set("distinct_nontrivial", out.get("states"));
    out.set("rule", "every distinct state reached by E1 histories (uniform weights {1,2,3} or all NaN), all 96 GraphSpecs; per state: counts, size, all degree variants and maps, handshake identities, degree centrality, density, sparse adjacency matrix entries, each computed independently from get_all_nodes()/get_all_edges()");
    for k in ["states_checked", "states_directed_self_loop", "states_parallel_edges"] {
        out.require_nonzero(k);
    }
    out.assumptions = vec!["names {a,b,c}; weights {1,2,3} or NaN; depth bound as reported".into(), "density asserted only for single-edge graphs with n >= 2; degree_centrality only for n >= 2".into()];
    out
}

pub fn replay(case: &str, rec: &Recorder) -> bool {
    if case.starts_with("L:") {
        let mut c = Counters::default();
        crate::large::c09_large("thorough", rec, &mut c);
        return rec.has_any();
    }
    let pc = match parse_case(case) {
        Some(p) => p,
        None => return false,
    };
    let specs = spec_from_index(pc.spec_idx);
    let ops = ops_of(&pc.alphabet, &pc.hist);
    let weighted = !pc.alphabet.name.starts_with("nan");
    for round in 0..2 {
        let (g, _) = build_real(&specs, &ops);
        let r = replay_ref(&specs, &ops);
        let sn = snap(&g);
        println!("round {round}: specs=[{}] history={:?}", spec_str(&specs), ops.iter().map(|o| o.short()).collect::<Vec<_>>());
        let mut c = Counters::default();
        C09Oracle { weighted }.state(&StateCtx { spec_idx: pc.spec_idx, specs: &specs, alphabet: &pc.alphabet, hist: &pc.hist, g: &g, r: &r, snap: &sn }, rec, &mut c);
    }
    rec.has_any()
}
