//! C10 — component functions partition the nodes by the right reachability relation.
use crate::c04::*;
use crate::common::*;
use crate::e2::*;
use crate::e3;
use crate::oracle::*;
use graphrs::algorithms::components;
use std::collections::{BTreeSet, HashSet};
use std::time::{Duration, Instant};

type Classes = BTreeSet<BTreeSet<usize>>;

fn classes(n: usize, same: impl Fn(usize, usize) -> bool) -> Classes {
    let mut out = Classes::new();
    for u in 0..n {
        out.insert((0..n).filter(|&v| same(u, v)).collect());
    }
    out
}

/// position of a returned name; a name that is not a node of the graph maps to usize::MAX, which no expected set
/// contains — the answer is then reported as wrong (it used to stop the harness instead)
fn idx10(b: &Built, name: &N) -> usize {
    b.names.iter().position(|x| x == name).unwrap_or(usize::MAX)
}

fn canon_sets(b: &Built, v: &[HashSet<N>]) -> (Vec<BTreeSet<usize>>, bool) {
    let sets: Vec<BTreeSet<usize>> = v.iter().map(|s| s.iter().map(|x| idx10(b, x)).collect()).collect();
    let total: usize = sets.iter().map(|s| s.len()).sum();
    let union: BTreeSet<usize> = sets.iter().flatten().cloned().collect();
    let ok = sets.iter().all(|s| !s.is_empty()) && total == b.n && union.len() == b.n;
    (sets, ok)
}

fn is_wrong_method<T>(r: &Result<T, graphrs::Error>) -> bool {
    matches!(r, Err(e) if format!("{:?}", e.kind) == "WrongMethod")
}

pub fn check_components(b: &Built, rec: &Recorder, c: &mut Counters, deep_scc: bool) -> u64 {
    let mut calls = 0u64;
    let sim = Simple::of(b, false);
    let reach = sim.reach();
    let n = b.n;
    let mk = |clause: &str, call: &str, sub: &str, detail: String| {
        Violation::new(clause, call, format!("{}|{sub}", b.case), format!("{}\n{detail}", b.describe())).with_tags(b.tags()).with_snippet(b.snippet(&format!("    // {call}: {}\n", detail.replace('\n', " "))))
    };
    let names_of = |s: &BTreeSet<usize>| s.iter().map(|i| b.names.get(*i).copied().unwrap_or("<NOT A NODE OF THE GRAPH>")).collect::<Vec<_>>();
    let mut check_partition = |call: &str, sub: &str, r: Result<Result<Vec<HashSet<N>>, graphrs::Error>, PanicInfo>, exp: Option<&Classes>| match r {
        Err(pi) => rec.record(mk("no_panic", call, sub, pi.msg.clone()).with_panic(pi)),
        Ok(r) => match exp {
            None => {
                if !is_wrong_method(&r) {
                    rec.record(mk("kind_guard", call, sub, format!("expected WrongMethod on this kind of graph, got {}", match &r { Ok(_) => "Ok".to_string(), Err(e) => format!("{:?}", e.kind) })));
                }
            }
            Some(exp) => match r {
                Err(e) => rec.record(mk("unexpected_error", call, sub, format!("Err({:?})", e.kind))),
                Ok(v) => {
                    let (sets, ok) = canon_sets(b, &v);
                    if !ok {
                        rec.record(mk("partition", call, sub, format!("returned sets {:?} are not a partition of the {} nodes into non-empty disjoint sets", sets.iter().map(&names_of).collect::<Vec<_>>(), n)));
                    } else {
                        let got: Classes = sets.into_iter().collect();
                        if got != *exp {
                            rec.record(mk("classes", call, sub, format!("components {:?}, the reachability classes are {:?}", got.iter().map(&names_of).collect::<Vec<_>>(), exp.iter().map(&names_of).collect::<Vec<_>>())));
                        }
                    }
                }
            },
        },
    };
    let strong = classes(n, |u, v| reach[u][v] && reach[v][u]);
    // weak: reachability ignoring direction
    let mut und = sim.clone();
    for u in 0..n {
        for v in 0..n {
            if sim.cost[u][v].is_some() {
                und.cost[v][u] = Some(1.0);
            }
        }
    }
    let ureach = und.reach();
    let weak = classes(n, |u, v| ureach[u][v]);
    if strong.len() > 1 && strong.iter().any(|s| s.len() > 1) {
        c.inc("digraphs_with_nontrivial_and_several_sccs");
    }
    calls += 4;
    if b.kind.directed {
        check_partition("components::strongly_connected_components", "scc", guarded(|| components::strongly_connected_components(&b.g)), Some(&strong));
        check_partition("components::weakly_connected_components", "wcc", guarded(|| components::weakly_connected_components(&b.g)), Some(&weak));
        check_partition("components::connected_components", "cc", guarded(|| components::connected_components(&b.g)), None);
        match guarded(|| components::number_of_connected_components(&b.g)) {
            Ok(r) if is_wrong_method(&r) => {}
            Ok(r) => rec.record(mk("kind_guard", "components::number_of_connected_components", "ncc", format!("directed graph: {:?}", r.map_err(|e| e.kind)))),
            Err(pi) => rec.record(mk("no_panic", "components::number_of_connected_components", "ncc", pi.msg.clone()).with_panic(pi)),
        }
        if n > 0 {
            calls += 1;
            match guarded(|| components::node_connected_component(&b.g, &b.names[0])) {
                Ok(r) if is_wrong_method(&r) => {}
                Ok(r) => rec.record(mk("kind_guard", "components::node_connected_component", "node_cc", format!("directed graph: {:?}", r.map(|_| ()).map_err(|e| e.kind)))),
                Err(pi) => rec.record(mk("no_panic", "components::node_connected_component", "node_cc", pi.msg.clone()).with_panic(pi)),
            }
        }
    } else {
        check_partition("components::connected_components", "cc", guarded(|| components::connected_components(&b.g)), Some(&weak));
        check_partition("components::strongly_connected_components", "scc", guarded(|| components::strongly_connected_components(&b.g)), None);
        check_partition("components::weakly_connected_components", "wcc", guarded(|| components::weakly_connected_components(&b.g)), None);
        match guarded(|| components::number_of_connected_components(&b.g)) {
            Ok(Ok(k)) if k == weak.len() => {}
            Ok(r) => rec.record(mk("count", "components::number_of_connected_components", "ncc", format!("{:?}, expected {}", r.map_err(|e| e.kind), weak.len()))),
            Err(pi) => rec.record(mk("no_panic", "components::number_of_connected_components", "ncc", pi.msg.clone()).with_panic(pi)),
        }
        for x in 0..n {
            calls += 1;
            let exp: BTreeSet<usize> = (0..n).filter(|&v| ureach[x][v]).collect();
            match guarded(|| components::node_connected_component(&b.g, &b.names[x])) {
                Ok(Ok(s)) => {
                    let got: BTreeSet<usize> = s.iter().map(|y| idx10(b, y)).collect();
                    if got != exp {
                        rec.record(mk("node_component", "components::node_connected_component", &format!("node_cc:{}", b.names[x]), format!("component of {} = {:?}, expected {:?}", b.names[x], names_of(&got), names_of(&exp))));
                    }
                }
                Ok(Err(e)) => rec.record(mk("unexpected_error", "components::node_connected_component", &format!("node_cc:{}", b.names[x]), format!("Err({:?})", e.kind))),
                Err(pi) => rec.record(mk("no_panic", "components::node_connected_component", &format!("node_cc:{}", b.names[x]), pi.msg.clone()).with_panic(pi)),
            }
        }
    }
    // breadth_first_search
    for x in 0..n {
        calls += 1;
        let exp: BTreeSet<usize> = (0..n).filter(|&v| reach[x][v]).collect();
        match guarded(|| b.g.breadth_first_search(&b.names[x])) {
            Err(pi) => rec.record(mk("no_panic", "Graph::breadth_first_search", &format!("bfs:{}", b.names[x]), pi.msg.clone()).with_panic(pi)),
            Ok(v) => {
                let got: Vec<usize> = v.iter().map(|y| idx10(b, y)).collect();
                let gs: BTreeSet<usize> = got.iter().cloned().collect();
                if got.first() != Some(&x) || gs != exp || gs.len() != got.len() {
                    rec.record(mk("bfs", "Graph::breadth_first_search", &format!("bfs:{}", b.names[x]), format!("bfs({}) = {:?}, expected {} first and then exactly {:?}", b.names[x], v, b.names[x], names_of(&exp))));
                }
            }
        }
    }
    // bfs_equal_size_partitions
    for k in 1..=n + 1 {
        calls += 1;
        match guarded(|| components::bfs_equal_size_partitions(&b.g, k)) {
            Err(pi) => rec.record(mk("no_panic", "components::bfs_equal_size_partitions", &format!("parts:{k}"), pi.msg.clone()).with_panic(pi)),
            Ok(parts) => {
                let flat: Vec<usize> = parts.iter().flatten().map(|y| idx10(b, y)).collect();
                let set: BTreeSet<usize> = flat.iter().cloned().collect();
                let bound = n / k + 1;
                if parts.len() != k || flat.len() != n || set.len() != n || parts.iter().any(|p| p.len() > bound) {
                    rec.record(mk("equal_size_partitions", "components::bfs_equal_size_partitions", &format!("parts:{k}"), format!("k={k}: parts {:?}; expected exactly {k} parts, every node once, each part <= {bound}", parts)));
                }
            }
        }
    }
    // deep stage: every visiting order of every successor set in the SCC routine
    if deep_scc && b.kind.directed && n >= 2 {
        let run_one = |prefix: &[u64]| -> (Result<Result<Vec<HashSet<N>>, graphrs::Error>, PanicInfo>, Vec<e3::Point>, Option<String>) {
            let (r, pts, div) = e3::run_with_choices(prefix, &[], || guarded(|| components::strongly_connected_components(&b.g)));
            (r, pts, div)
        };
        let (_, pts, _) = run_one(&[]);
        let ar: Vec<u64> = pts.iter().map(|p| e3::factorial(p.arity)).collect();
        let total: u64 = ar.iter().product();
        if total > 1 && total <= 5000 {
            c.inc("scc_graphs_with_order_choices");
            let mut cur = vec![0u64; ar.len()];
            loop {
                let (r, pts2, div) = run_one(&cur);
                calls += 1;
                c.inc("scc_order_executions");
                if div.is_some() || pts2.len() != ar.len() {
                    eprintln!("MACHINERY-ERROR: SCC choice replay diverged on {}: {:?}", b.case, div);
                    std::process::exit(2);
                }
                let sub = format!("scc|c={}", cur.iter().map(|x| x.to_string()).collect::<Vec<_>>().join(","));
                check_partition("components::strongly_connected_components", &sub, r, Some(&strong));
                // odometer
                let mut i = 0;
                loop {
                    if i == ar.len() {
                        break;
                    }
                    cur[i] += 1;
                    if cur[i] < ar[i] {
                        break;
                    }
                    cur[i] = 0;
                    i += 1;
                }
                if i == ar.len() {
                    break;
                }
            }
        }
    }
    calls
}

pub fn c10_families(tier: &str) -> Vec<(Family, bool)> {
    let mut v: Vec<(Family, bool)> = primed_small("u", 3).into_iter().chain(route_small("u", true)).chain(hist_small("u", true)).map(|f| { let d = f.kind.directed; (f, d) }).collect();
    if tier == "quick" {
        for n in 0..=3 {
            for k in kinds_all() {
                v.push((fam(k, n, "u", &ORD_TWO), k.directed));
            }
        }
        v.push((fam(DS, 4, "u", &ORD_ONE), true));
        v.push((fam(US, 4, "u", &ORD_TWO), false));
        v.push((fam(US, 5, "u", &ORD_TWO), false));
        v.push((fam(US, 6, "u", &ORD_ONE), false));
        v.push((fam(DSL, 4, "u", &ORD_ONE), false));
        v.push((fam(DS, 5, "u", &ORD_ONE), false));
    } else {
        for n in 0..=3 {
            for k in kinds_all() {
                v.push((fam(k, n, "u", &ORD_ALL), k.directed));
            }
        }
        v.push((fam(DS, 4, "u", &ORD_TWO), true));
        v.push((fam(DSL, 4, "u", &ORD_ONE), false));
        v.push((fam(DS, 5, "u", &ORD_ONE), false));
        v.push((fam(US, 4, "u", &ORD_ALL), false));
        v.push((fam(USL, 4, "u", &ORD_TWO), false));
        v.push((fam(UM, 4, "u", &ORD_ONE), false));
        v.push((fam(US, 5, "u", &ORD_ALL), false));
        v.push((fam(US, 6, "u", &ORD_TWO), false));
        v.push((fam(US, 7, "u", &ORD_ONE), false));
    }
    v
}

/// child-process entry: component functions on one very long path / cycle (depth = number of nodes)
pub fn one(label: &str) -> i32 {
    // on a thread with the default (2 MiB) stack, as a caller's worker thread or a test would have
    let l = label.to_string();
    std::thread::spawn(move || one_inner(&l)).join().unwrap_or(4)
}

fn one_inner(label: &str) -> i32 {
    use graphrs::{Edge, Graph, GraphSpecs};
    let p: Vec<&str> = label.split(':').collect();
    if p.len() != 3 {
        return 2;
    }
    let n: i32 = p[1].parse().unwrap_or(1000);
    let directed = p[2] == "directed";
    let mut g: Graph<i32, ()> = Graph::new(if directed { GraphSpecs::directed_create_missing() } else { GraphSpecs::undirected_create_missing() });
    for i in 0..n - 1 {
        g.add_edge(Edge::new(i, i + 1)).expect("path edge");
    }
    if p[0] == "cycle" {
        g.add_edge(Edge::new(n - 1, 0)).expect("cycle edge");
    }
    let mut ok = true;
    if directed {
        let w = components::weakly_connected_components(&g).map(|c| c.len());
        ok &= matches!(w, Ok(1));
        let s = components::strongly_connected_components(&g).map(|c| c.len());
        ok &= matches!(s, Ok(k) if k == if p[0] == "cycle" { 1 } else { n as usize });
    } else {
        let cc = components::connected_components(&g).map(|c| (c.len(), c.iter().map(|x| x.len()).sum::<usize>()));
        ok &= matches!(cc, Ok((1, k)) if k == n as usize);
        ok &= matches!(components::number_of_connected_components(&g), Ok(1));
        ok &= matches!(components::node_connected_component(&g, &(n / 2)), Ok(ref s) if s.len() == n as usize);
    }
    let bfs = g.breadth_first_search(&0);
    ok &= bfs.len() == n as usize || (directed && bfs.len() == n as usize);
    if ok {
        0
    } else {
        3
    }
}

fn deep_component_stage(tier: &str, rec: &Recorder, out: &mut RunOutput) {
    let n = if tier == "quick" { 150_000 } else { 600_000 };
    let exe = std::env::current_exe().expect("current_exe");
    // (a directed path has n strong components, which the library handles in quadratic time: kept short)
    for label in [format!("path:{n}:undirected"), format!("cycle:{n}:undirected"), "path:3000:directed".to_string(), format!("cycle:{n}:directed")] {
        out.add("deep_component_graphs", 1);
        match std::process::Command::new(&exe).args(["c10one", &label]).output() {
            Err(e) => out.machinery_errors.push(format!("cannot spawn the deep-component child: {e}")),
            Ok(o) => match o.status.code() {
                Some(0) => {}
                Some(3) => rec.record(Violation::new("classes", "components", format!("deep:{label}"), format!("a component function returned a wrong answer on the {label} graph (one component of {n} nodes)"))),
                other => {
                    let err = String::from_utf8_lossy(&o.stderr);
                    rec.record(Violation::new("no_stack_overflow_or_abort", "components", format!("deep:{label}"), format!("a component function killed the process on the {label} graph (kind:nodes:direction; one long chain), called from a thread with the default stack: exit status {other:?} / {:?}; stderr: {}", o.status, err.lines().last().unwrap_or(""))));
                }
            },
        }
    }
}

pub fn run(tier: &str, rec: &Recorder) -> RunOutput {
    let start = Instant::now();
    let mut out = RunOutput::new("model_checking");
    let deadline = start + Duration::from_secs_f64(wall_cap_s(tier));
    let stats = E2Stats::new();
    let seed = std::env::var("VERIF_SEED").ok().and_then(|s| s.parse().ok()).unwrap_or(0);
    for (f, deep) in c10_families(tier) {
        for_each_graph(&f, seed, deadline, &stats, |b, c| check_components(b, rec, c, deep));
    }
    fill_e2_coverage(&mut out, &stats);
    deep_component_stage(tier, rec, &mut out);
    out.set("traces_validated_against_impl", out.get("transitions"));
    out.set("choice_points_explored", out.get("scc_order_executions"));
    out.set("distinct_nontrivial", out.get("digraphs_with_nontrivial_and_several_sccs"));
    out.set("rule", "every labelled graph of each family (unweighted; all kinds n<=3, digraphs n<=4/5, undirected n<=6/7) x insertion-order variants; per graph: strongly/weakly/connected components, number and node component for every node, bfs from every node, bfs_equal_size_partitions for k=1..n+1, each function on the other kind; oracle = Warshall closure classes. Deep stage: for digraphs (n<=4) the visiting order of every successor set in the SCC routine is a choice point and all order combinations are executed. distinct_nontrivial = digraphs with several SCCs of which one is non-trivial");
    for k in ["digraphs_with_nontrivial_and_several_sccs", "scc_graphs_with_order_choices", "scc_order_executions"] {
        out.require_nonzero(k);
    }
    out.assumptions = vec!["graph sizes as listed; the SCC order seam models the HashSet iteration orders of the successor sets (the only order dependence in the routine besides the node list order, which is varied by the insertion-order variants)".into()];
    out
}

pub fn replay(case: &str, rec: &Recorder) -> bool {
    if case.starts_with("deep:") {
        let mut out = RunOutput::new("model_checking");
        deep_component_stage("quick", rec, &mut out);
        return rec.has_any();
    }
    let (f, _, _, _, _) = match parse_case(case) {
        Some(x) => x,
        None => return false,
    };
    let seed = std::env::var("VERIF_SEED").ok().and_then(|s| s.parse().ok()).unwrap_or(0);
    let mut lists: Vec<(Vec<(u8, u8)>, bool)> = vec![];
    for tier in ["quick", "thorough"] {
        for (pf, deep) in c10_families(tier) {
            if pf.kind == f.kind && pf.n == f.n && pf.walpha == f.walpha && !lists.iter().any(|x| x.0 == pf.orders && x.1 == deep) {
                lists.push((pf.orders.clone(), deep));
            }
        }
    }
    let dummy = Recorder::new("C10", &[]);
    for (orders, deep) in lists {
        for round in 0..2 {
            replay_chunk(case, &orders, 0, seed, |b, target| {
                let mut c = Counters::default();
                if target {
                    println!("round {round}: {}", b.describe());
                }
                check_components(b, if target { rec } else { &dummy }, &mut c, deep);
            });
        }
        if rec.has_any() {
            return true;
        }
    }
    rec.has_any()
}
