//! Inputs and canonical result digests for C07, shared (via #[path]) by the schedule explorer
//! (`gvpar`, rayon = contract model) and the real-rayon conformance stage (`gv c07d`).
#![allow(dead_code)]

use graphrs::algorithms::centrality::{betweenness, closeness};
use graphrs::algorithms::shortest_path::dijkstra;
use graphrs::generators::random;
use graphrs::{Edge, Graph, GraphSpecs, Node};
use std::sync::Arc;

pub struct Input {
    pub name: String,
    pub g: Graph<i32, ()>,
    pub weighted: bool,
}

fn from_edges(n: i32, directed: bool, edges: &[(i32, i32)], weighted: bool) -> Graph<i32, ()> {
    let mut g: Graph<i32, ()> = Graph::new(if directed { GraphSpecs::directed() } else { GraphSpecs::undirected() });
    // insertion order differs from name order
    for i in (0..n).rev() {
        g.add_node(Node::from_name(i));
    }
    for &(u, v) in edges {
        let w = if weighted { (1 + (u * 7 + v * 13) % 5) as f64 } else { f64::NAN };
        g.add_edge(Arc::new(Edge { u, v, weight: w, attributes: None })).expect("c07 input");
    }
    g
}

fn gnp_edges(n: i32, p: f64, directed: bool, seed: u64) -> Vec<(i32, i32)> {
    let g = random::fast_gnp_random_graph(n, p, directed, Some(seed)).expect("gnp");
    let mut es: Vec<(i32, i32)> = g.get_all_edges().iter().map(|e| (e.u, e.v)).collect();
    es.sort();
    es
}

/// graphs above the 20-node threshold (production parallel path)
pub fn large_inputs(tier: &str) -> Vec<Input> {
    let mut v = vec![];
    let sizes: Vec<i32> = if tier == "quick" { vec![21, 24] } else { vec![21, 22, 23, 24] };
    for &n in &sizes {
        for weighted in [false, true] {
            for directed in [false, true] {
                let es = gnp_edges(n, 0.15, directed, 100 + n as u64);
                v.push(Input { name: format!("gnp({n},0.15,{},seed {})/{}", if directed { "directed" } else { "undirected" }, 100 + n as u64, if weighted { "w" } else { "u" }), g: from_edges(n, directed, &es, weighted), weighted });
            }
        }
    }
    let n = 22;
    for weighted in [false, true] {
        let path: Vec<(i32, i32)> = (0..n - 1).map(|i| (i, i + 1)).collect();
        let cycle: Vec<(i32, i32)> = (0..n).map(|i| (i, (i + 1) % n)).collect();
        let star: Vec<(i32, i32)> = (1..n).map(|i| (0, i)).collect();
        let two: Vec<(i32, i32)> = (0..10).map(|i| (i, i + 1)).chain((12..n - 1).map(|i| (i, i + 1))).collect();
        // a lattice with many equal-length shortest paths
        let mut grid = vec![];
        for r in 0..4 {
            for c in 0..6 {
                let id = r * 6 + c;
                if c + 1 < 6 {
                    grid.push((id, id + 1));
                }
                if r + 1 < 4 {
                    grid.push((id, id + 6));
                }
            }
        }
        let w = if weighted { "w" } else { "u" };
        v.push(Input { name: format!("path22/{w}"), g: from_edges(n, false, &path, weighted), weighted });
        v.push(Input { name: format!("cycle22/directed/{w}"), g: from_edges(n, true, &cycle, weighted), weighted });
        v.push(Input { name: format!("star22/{w}"), g: from_edges(n, false, &star, weighted), weighted });
        v.push(Input { name: format!("two-components22/{w}"), g: from_edges(n, false, &two, weighted), weighted });
        v.push(Input { name: format!("grid4x6/{w}"), g: from_edges(24, false, &grid, weighted), weighted });
    }
    // zero-weight edges (legal: non-negative): equal distances along a path, ties everywhere
    for directed in [false, true] {
        let n = 24;
        let es = gnp_edges(n, 0.2, directed, 77);
        let mut g: Graph<i32, ()> = Graph::new(if directed { GraphSpecs::directed() } else { GraphSpecs::undirected() });
        for i in (0..n).rev() {
            g.add_node(Node::from_name(i));
        }
        for &(u, v) in &es {
            g.add_edge(Arc::new(Edge { u, v, weight: ((u * 7 + v * 13) % 3) as f64, attributes: None })).expect("c07 input");
        }
        v.push(Input { name: format!("zero-weights24/{}", if directed { "directed" } else { "undirected" }), g, weighted: true });
    }
    // inputs on which calls FAIL: a negative edge (ContradictoryPaths from every source that reaches it) and, in the
    // calls below, an unknown source name next to it - which error comes back must not depend on the schedule either
    {
        let n = 24;
        let mut g: Graph<i32, ()> = Graph::new(GraphSpecs::directed());
        for i in (0..n).rev() {
            g.add_node(Node::from_name(i));
        }
        // ring i -> i+1 (1) with chords i -> i+2 (2); the edge 12 -> 11 (-5) improves node 11 after it has been
        // settled, so every search that reaches 12 after 11 ends in ContradictoryPaths
        for i in 0..n {
            g.add_edge(Arc::new(Edge { u: i, v: (i + 1) % n, weight: 1.0, attributes: None })).expect("c07 input");
            g.add_edge(Arc::new(Edge { u: i, v: (i + 2) % n, weight: 2.0, attributes: None })).expect("c07 input");
        }
        g.add_edge(Arc::new(Edge { u: 12, v: 11, weight: -5.0, attributes: None })).expect("c07 input");
        v.push(Input { name: "neg-ring24/directed".into(), g, weighted: true });
    }
    // sizes around further round numbers (a second size-gated path would switch on somewhere here)
    let bigs: Vec<i32> = if tier == "quick" { vec![130, 601] } else { vec![65, 130, 260, 520, 601, 1030, 2051] };
    for &n in &bigs {
        for directed in [false, true] {
            let mut es: Vec<(i32, i32)> = (0..n).map(|i| (i, (i + 1) % n)).collect();
            for i in (0..n).step_by(7) {
                let j = (i * 13 + 5) % n;
                if j != i && j != (i + 1) % n && (j + 1) % n != i {
                    es.push((i, j));
                }
            }
            es.sort();
            es.dedup();
            // undirected graphs must not hold (a,b) and (b,a)
            if !directed {
                let mut seen = std::collections::HashSet::new();
                es.retain(|&(a, b)| seen.insert((a.min(b), a.max(b))));
            }
            v.push(Input { name: format!("big-ring{n}/{}", if directed { "directed" } else { "undirected" }), g: from_edges(n, directed, &es, n % 2 == 0), weighted: n % 2 == 0 });
        }
    }
    v
}

fn fnv(h: &mut u64, s: &str) {
    for b in s.bytes() {
        *h ^= b as u64;
        *h = h.wrapping_mul(0x100000001b3);
    }
}

fn digest_pairs(m: &std::collections::HashMap<i32, std::collections::HashMap<i32, graphrs::algorithms::shortest_path::ShortestPathInfo<i32>>>) -> u64 {
    let mut keys: Vec<&i32> = m.keys().collect();
    keys.sort();
    let mut h: u64 = 0xcbf29ce484222325;
    for s in keys {
        let hm = &m[s];
        let mut ts: Vec<&i32> = hm.keys().collect();
        ts.sort();
        for t in ts {
            let spi = &hm[t];
            // distances bit for bit; path LIST in the order returned (a list, not a set)
            fnv(&mut h, &format!("{s}>{t}:{:016x}:{:?};", spi.distance.to_bits(), spi.paths));
        }
    }
    h
}

fn digest_map(m: &std::collections::HashMap<i32, f64>) -> u64 {
    let mut keys: Vec<&i32> = m.keys().collect();
    keys.sort();
    let mut h: u64 = 0xcbf29ce484222325;
    for k in keys {
        fnv(&mut h, &format!("{k}:{:016x};", m[k].to_bits()));
    }
    h
}

/// the calls C07 is about, as closures returning a bit-exact digest
pub fn calls(inp: &Input) -> Vec<(String, Box<dyn Fn() -> u64 + Send + Sync + '_>)> {
    let g = &inp.g;
    let mut v: Vec<(String, Box<dyn Fn() -> u64 + Send + Sync + '_>)> = vec![];
    let n = g.number_of_nodes() as i32;
    let modes: Vec<bool> = if inp.weighted { vec![true, false] } else { vec![false] };
    if inp.name.starts_with("neg-") {
        let res = |r: Result<std::collections::HashMap<i32, std::collections::HashMap<i32, graphrs::algorithms::shortest_path::ShortestPathInfo<i32>>>, graphrs::Error>| -> u64 {
            match r {
                Ok(m) => digest_pairs(&m),
                Err(e) => {
                    let mut h: u64 = 0xcbf29ce484222325;
                    fnv(&mut h, &format!("Err:{:?}:{}", e.kind, e.message));
                    h
                }
            }
        };
        v.push(("all_pairs(w=true,paths) -> error".into(), Box::new(move || res(dijkstra::all_pairs(g, true, None, None, false, true)))));
        v.push(("all_pairs(w=true,fast) -> error".into(), Box::new(move || res(dijkstra::all_pairs(g, true, None, None, false, false)))));
        v.push(("multi_source(w=true,[0, unknown, 5],first_only) -> error".into(), Box::new(move || res(dijkstra::multi_source(g, true, vec![0, 1_000_000, 5], None, None, true, false)))));
        v.push(("multi_source(w=true,[unknown, 0],paths) -> error".into(), Box::new(move || res(dijkstra::multi_source(g, true, vec![1_000_000, 0], None, None, false, true)))));
        v.push(("multi_source(w=false,all) on the same graph".into(), Box::new(move || res(dijkstra::multi_source(g, false, (0..n).collect(), None, None, false, true)))));
        return v;
    }
    if n > 100 {
        // big inputs: the cheaper variants only
        let weighted = inp.weighted;
        v.push((format!("all_pairs(w={weighted},fast)"), Box::new(move || digest_pairs(&dijkstra::all_pairs(g, weighted, None, None, false, false).expect("all_pairs")))));
        v.push((format!("all_pairs(w={weighted},target,first_only)"), Box::new(move || digest_pairs(&dijkstra::all_pairs(g, weighted, Some(n / 2), Some(9.0), true, true).expect("all_pairs")))));
        v.push((format!("multi_source(w={weighted},5 sources)"), Box::new(move || digest_pairs(&dijkstra::multi_source(g, weighted, vec![3, 1, 4, 15, 9], None, None, false, true).expect("multi_source")))));
        v.push((format!("multi_source(w={weighted},repeated sources [3,3,17,3,5,5])"), Box::new(move || digest_pairs(&dijkstra::multi_source(g, weighted, vec![3, 3, 17, 3, 5, 5], None, None, false, true).expect("multi_source")))));
        v.push((format!("betweenness_centrality(w={weighted},normalized=false)"), Box::new(move || digest_map(&betweenness::betweenness_centrality(g, weighted, false).expect("betweenness")))));
        v.push((format!("closeness_centrality(w={weighted},wf=true)"), Box::new(move || digest_map(&closeness::closeness_centrality(g, weighted, true).expect("closeness")))));
        return v;
    }
    for weighted in modes {
        v.push((format!("all_pairs(w={weighted},paths)"), Box::new(move || digest_pairs(&dijkstra::all_pairs(g, weighted, None, None, false, true).expect("all_pairs")))));
        v.push((format!("all_pairs(w={weighted},fast)"), Box::new(move || digest_pairs(&dijkstra::all_pairs(g, weighted, None, None, false, false).expect("all_pairs")))));
        v.push((format!("all_pairs(w={weighted},target,first_only)"), Box::new(move || digest_pairs(&dijkstra::all_pairs(g, weighted, Some(n / 2), Some(6.0), true, true).expect("all_pairs")))));
        v.push((format!("multi_source(w={weighted},all)"), Box::new(move || digest_pairs(&dijkstra::multi_source(g, weighted, (0..n).rev().collect(), None, None, false, true).expect("multi_source")))));
        v.push((format!("multi_source(w={weighted},5 sources)"), Box::new(move || digest_pairs(&dijkstra::multi_source(g, weighted, vec![3, 1, 4, 15, 9], None, None, false, true).expect("multi_source")))));
        v.push((format!("multi_source(w={weighted},repeated sources [3,3,17,3,5,5])"), Box::new(move || digest_pairs(&dijkstra::multi_source(g, weighted, vec![3, 3, 17, 3, 5, 5], None, None, false, true).expect("multi_source")))));
        v.push((format!("get_all_shortest_paths_involving(w={weighted})"), Box::new(move || {
            let mut items: Vec<String> = dijkstra::get_all_shortest_paths_involving(g, n / 3, weighted).iter().map(|spi| format!("{:016x}:{:?}", spi.distance.to_bits(), spi.paths)).collect();
            items.sort(); // multiset: its order is a hash order, not a schedule effect
            let mut h: u64 = 0xcbf29ce484222325;
            for s in items {
                fnv(&mut h, &s);
            }
            h
        })));
        if weighted && g.specs.directed {
            v.push(("closeness, KeepLast replacement of one weight in place, closeness again".into(), Box::new(move || {
                let mut specs = g.specs.clone();
                specs.edge_dedupe_strategy = graphrs::EdgeDedupeStrategy::KeepLast;
                let mut h: Graph<i32, ()> = Graph::new(specs);
                for nd in g.get_all_nodes() {
                    h.add_node(nd.clone());
                }
                let mut es: Vec<(i32, i32, f64)> = g.get_all_edges().iter().map(|e| (e.u, e.v, e.weight)).collect();
                es.sort_by(|a, b| (a.0, a.1).cmp(&(b.0, b.1)));
                for &(u, v2, w) in &es {
                    h.add_edge(Arc::new(Edge { u, v: v2, weight: w, attributes: None })).expect("copy");
                }
                let first = digest_map(&closeness::closeness_centrality(&h, true, true).expect("closeness"));
                let (u, v2, w) = es[es.len() / 2];
                h.add_edge(Arc::new(Edge { u, v: v2, weight: w + 7.0, attributes: None })).expect("replace");
                let second = digest_map(&closeness::closeness_centrality(&h, true, true).expect("closeness"));
                first ^ second.rotate_left(17)
            })));
        }
        for flag in [false, true] {
            v.push((format!("betweenness_centrality(w={weighted},normalized={flag})"), Box::new(move || digest_map(&betweenness::betweenness_centrality(g, weighted, flag).expect("betweenness")))));
            v.push((format!("closeness_centrality(w={weighted},wf={flag})"), Box::new(move || digest_map(&closeness::closeness_centrality(g, weighted, flag).expect("closeness")))));
        }
    }
    v
}
