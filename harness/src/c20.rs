//! C20 — valid calls on degenerate graphs return values or errors, never panic (E2 x API table).
use crate::c04::*;
use crate::common::*;
use crate::e2::*;
use graphrs::algorithms::centrality::{betweenness, closeness, degree, eigenvector};
use graphrs::algorithms::cluster;
use graphrs::algorithms::community::{louvain, partitions};
use graphrs::algorithms::components;
use graphrs::algorithms::shortest_path::dijkstra;
use graphrs::readwrite::graphml;
use graphrs::{verif_hooks, Edge, Graph, GraphSpecs, Node};
use std::collections::HashSet;
use std::sync::Arc;
use std::time::{Duration, Instant};

pub const ABSENT: N = "zz";

/// outcome of one call, as far as C20 cares
#[derive(PartialEq)]
enum Out {
    Value,
    Refused, // Err(..) or None
}
fn r<T>(x: Result<T, graphrs::Error>) -> Out {
    if x.is_ok() {
        Out::Value
    } else {
        Out::Refused
    }
}
fn o<T>(x: Option<T>) -> Out {
    if x.is_some() {
        Out::Value
    } else {
        Out::Refused
    }
}
fn v<T>(_x: T) -> Out {
    Out::Value
}

/// the externally reachable API, as a table (name -> covered); cross-checked against `pub fn` in /repo/src
pub const API_TABLE: &[&str] = &[
    "new", "new_from_nodes_and_edges", "add_node", "add_nodes", "add_edge", "add_edge_tuple", "add_edges", "add_edge_tuples",
    "breadth_first_search", "edges_have_weight", "get_all_edges", "get_all_nodes", "get_all_node_names", "get_edge", "get_edges", "get_edges_for_node",
    "get_edges_for_nodes", "get_in_edges_for_node", "get_in_edges_for_nodes", "get_out_edges_for_node", "get_out_edges_for_nodes", "get_neighbor_nodes",
    "get_node", "get_node_by_index", "get_predecessor_nodes", "get_predecessor_node_names", "get_predecessors_map", "get_successor_nodes",
    "get_successor_node_names", "get_successors_map", "get_successors_or_neighbors", "has_node", "has_nodes", "number_of_nodes", "number_of_edges", "size",
    "get_node_degree", "get_node_in_degree", "get_node_out_degree", "get_node_weighted_degree", "get_node_weighted_in_degree", "get_node_weighted_out_degree",
    "get_degree_for_all_nodes", "get_in_degree_for_all_nodes", "get_out_degree_for_all_nodes", "get_weighted_degree_for_all_nodes",
    "get_weighted_in_degree_for_all_nodes", "get_weighted_out_degree_for_all_nodes", "get_density", "get_sparse_adjacency_matrix", "get_subgraph", "reverse",
    "set_all_edge_weights", "to_single_edges", "ensure_directed", "ensure_undirected", "ensure_not_multi_edges", "ensure_weighted",
    "with_weight", "ordered", "reversed", "from_name", "from_name_and_attributes",
    "directed", "directed_create_missing", "undirected", "undirected_create_missing", "multi_directed", "multi_undirected",
    "single_source", "multi_source", "all_pairs", "get_all_shortest_paths_involving", "contains_path_through_node",
    "betweenness_centrality", "closeness_centrality", "degree_centrality", "eigenvector_centrality",
    "average_clustering", "clustering", "generalized_degree", "square_clustering", "transitivity", "triangles",
    "louvain_communities", "louvain_partitions", "is_partition", "modularity",
    "connected_components", "number_of_connected_components", "node_connected_component", "strongly_connected_components", "weakly_connected_components",
    "bfs_equal_size_partitions", "complete_graph", "fast_gnp_random_graph", "karate_club_graph",
    "read_graphml_string", "read_graphml_file", "write_graphml_string", "write_graphml_file",
];
/// pub fns that are not part of the externally reachable API (private modules / hooks / trait impls)
pub const NOT_EXTERNAL: &[&str] = &[
    "get_directed_triangles_and_degrees", "get_directed_weighted_triangles_and_degrees", "get_triangles_and_degrees", "get_weighted_triangles_and_degrees",
    "get_adjacent_nodes_without", "get_normalized_edge_weight", "get_neighbors_of_nodes", "push_fringe_node",
    "verif_snapshot", "set_chooser", "set_observer", "set_parallel_override", "parallel_override", "order_by_key", "observe", "fast_gnp_random_graph_with_rng",
    "fmt", "eq", "cmp", "partial_cmp", "hash", "without", "to_hashset", "chunk_by_count", "next", "ordered_sum",
];

pub fn api_crosscheck() -> Result<(usize, usize), String> {
    fn walk(dir: &std::path::Path, out: &mut Vec<(String, String)>) {
        if let Ok(rd) = std::fs::read_dir(dir) {
            for e in rd.flatten() {
                let p = e.path();
                if p.is_dir() {
                    walk(&p, out);
                } else if p.extension().map_or(false, |x| x == "rs") && !p.file_name().unwrap().to_string_lossy().starts_with("main") {
                    if let Ok(s) = std::fs::read_to_string(&p) {
                        for line in s.lines() {
                            let t = line.trim_start();
                            for pre in ["pub fn ", "pub(crate) fn "] {
                                if t.starts_with(pre) && pre == "pub fn " {
                                    let name: String = t[pre.len()..].chars().take_while(|c| c.is_alphanumeric() || *c == '_').collect();
                                    out.push((name, p.to_string_lossy().to_string()));
                                }
                            }
                        }
                    }
                }
            }
        }
    }
    let mut found = vec![];
    walk(std::path::Path::new("/repo/src"), &mut found);
    if found.is_empty() {
        return Err("no pub fn found under /repo/src".into());
    }
    let mut missing = vec![];
    for (name, file) in &found {
        if !API_TABLE.contains(&name.as_str()) && !NOT_EXTERNAL.contains(&name.as_str()) {
            missing.push(format!("{name} ({file})"));
        }
    }
    if !missing.is_empty() {
        return Err(format!("public functions missing from the C20 API table: {}", missing.join(", ")));
    }
    Ok((found.len(), API_TABLE.len()))
}

thread_local! {
    /// history stage: run only the k-th call of the table (None = every call)
    static ONLY_CALL: std::cell::Cell<Option<u64>> = const { std::cell::Cell::new(None) };
    /// history stage, first pass: indexes of the calls that were refused (Err / None)
    static REFUSED_CALLS: std::cell::RefCell<Option<Vec<(u64, &'static str)>>> = const { std::cell::RefCell::new(None) };
    /// text of the last call executed under ONLY_CALL
    static LAST_CALL: std::cell::RefCell<String> = const { std::cell::RefCell::new(String::new()) };
}

struct Ctx<'a> {
    b: &'a Built,
    rec: &'a Recorder,
    calls: u64,
    c: &'a mut Counters,
}

impl<'a> Ctx<'a> {
    fn viol(&self, clause: &str, call: &str, args: &str, detail: String, pi: Option<PanicInfo>, extra: Vec<String>) {
        let mut t = self.b.tags();
        t.extend(extra);
        let mut vi = Violation::new(clause, call, format!("{}|{call}({args})", self.b.case), format!("{}\n{call}({args}): {detail}", self.b.describe())).with_tags(t).with_snippet(self.b.snippet(&format!("    // then call {call}({args})\n")));
        if let Some(p) = pi {
            vi = vi.with_panic(p);
        }
        self.rec.record(vi);
    }
    /// runs one call; `absent` = an absent name was passed to a function with an error channel
    fn call(&mut self, name: &'static str, args: String, absent: bool, f: impl FnOnce() -> Out) {
        self.calls += 1;
        if let Some(k) = ONLY_CALL.with(|c| c.get()) {
            if k != self.calls {
                return;
            }
            LAST_CALL.with(|l| *l.borrow_mut() = format!("{name}({args})"));
            // the leading call of a history: its own outcome was judged when the graph was checked alone
            let _ = guarded(f);
            return;
        }
        match guarded(f) {
            Ok(out) => {
                if out == Out::Refused {
                    let k = self.calls;
                    REFUSED_CALLS.with(|r| {
                        if let Some(v) = r.borrow_mut().as_mut() {
                            v.push((k, name));
                        }
                    });
                }
                if absent && out == Out::Value {
                    self.viol("absent_name", name, &args, "returned a value for a name that is not in the graph (expected Err / None)".into(), None, vec![]);
                }
            }
            Err(pi) => {
                if let Some(why) = is_stop(&pi) {
                    let why = why.to_string();
                    self.viol("no_hang", name, &args, format!("did not terminate: {why}"), None, vec!["louvain_no_progress".into()]);
                } else {
                    let clause = if pi.is_overflow() { "no_overflow" } else { "no_panic" };
                    let mut extra = vec![];
                    if absent {
                        extra.push("absent_name_argument".into());
                    }
                    self.viol(clause, name, &args, format!("panicked: {}", pi.msg), Some(pi), extra);
                }
            }
        }
    }
}

/// installs a sweep-counting observer that unwinds a Louvain run which revisits a state or exceeds its horizon
fn with_louvain_watch<T>(n: usize, f: impl FnOnce() -> T) -> T {
    let horizon = 100 * n * n + 100;
    let mut sweeps = 0usize;
    verif_hooks::set_observer(Some(Box::new(move |site, _state| {
        if site != "louvain.sweep" {
            return;
        }
        sweeps += 1;
        if sweeps > horizon {
            std::panic::panic_any(StopRun(format!("more than {horizon} local-moving sweeps")));
        }
    })));
    let r = f();
    verif_hooks::set_observer(None);
    r
}

/// the API table on the graph itself and (small graphs) on every graph DERIVED from it by another API call
pub fn check_api(b: &Built, rec: &Recorder, c: &mut Counters) -> u64 {
    let mut calls = check_api_one(b, rec, c);
    if !(b.n <= 2 || b.case.starts_with("x:")) || ONLY_CALL.with(|o| o.get()).is_some() {
        return calls;
    }
    let mut derived: Vec<(&'static str, G2)> = vec![];
    let mut all: Vec<N> = b.names.clone();
    all.reverse();
    if let Ok(Ok(g)) = guarded(|| b.g.reverse()) {
        derived.push(("reverse()", g));
    }
    if let Ok(Ok(g)) = guarded(|| b.g.to_single_edges()) {
        derived.push(("to_single_edges()", g));
    }
    if let Ok(g) = guarded(|| b.g.get_subgraph(&all)) {
        derived.push(("get_subgraph(all nodes)", g));
    }
    if let Ok(g) = guarded(|| b.g.set_all_edge_weights(2.0)) {
        derived.push(("set_all_edge_weights(2.0)", g));
    }
    for (label, g2) in derived {
        let kind = Kind { directed: g2.specs.directed, multi: g2.specs.multi_edges, loops: g2.specs.self_loops };
        let names = b.names.clone();
        let edges: Vec<(usize, usize, f64)> = g2.get_all_edges().iter().map(|e| (names.iter().position(|x| *x == e.u).unwrap_or(0), names.iter().position(|x| *x == e.v).unwrap_or(0), e.weight)).collect();
        let node_order: Vec<usize> = g2.get_all_nodes().iter().map(|nd| names.iter().position(|x| *x == nd.name).unwrap_or(0)).collect();
        let b2 = Built { kind, n: b.n, names, edges, node_order, g: g2, case: b.case.clone(), weighted: b.weighted };
        set_context_note(Some(format!("the graph under check, described next, is the result of {label} on another graph")));
        c.inc("derived_graphs_checked");
        // violations carry the source graph's description and case; the note names the derivation
        let inner = Recorder::new("C20", &[]);
        calls += check_api_one(&b2, &inner, c);
        set_context_note(None);
        for mut v in inner.take_all() {
            v.detail = format!("on the result of {label} of: {}\n{}", b.describe(), v.detail);
            v.tags.push("derived_graph".into());
            rec.record(v);
        }
    }
    calls
}

fn check_api_one(b: &Built, rec: &Recorder, c: &mut Counters) -> u64 {
    let g = &b.g;
    let n = b.n;
    let mut cx = Ctx { b, rec, calls: 0, c };
    let mut names: Vec<N> = b.names.clone();
    names.push(ABSENT);
    let present: Vec<N> = b.names.clone();
    let is_abs = |x: N| x == ABSENT;
    let subsets_of = |u: &Vec<N>| -> Vec<Vec<N>> { (0..(1usize << u.len())).map(|m| (0..u.len()).filter(|i| m >> i & 1 == 1).map(|i| u[i]).collect()).collect() };

    // ---- per-name functions with an error channel
    for &x in &names {
        let a = is_abs(x);
        let xs = format!("{x:?}");
        cx.call("get_edges_for_node", xs.clone(), a, || r(g.get_edges_for_node(x)));
        cx.call("get_in_edges_for_node", xs.clone(), a, || r(g.get_in_edges_for_node(x)));
        cx.call("get_out_edges_for_node", xs.clone(), a, || r(g.get_out_edges_for_node(x)));
        cx.call("get_neighbor_nodes", xs.clone(), a, || r(g.get_neighbor_nodes(x)));
        cx.call("get_node", xs.clone(), a, || o(g.get_node(x)));
        cx.call("get_predecessor_nodes", xs.clone(), a, || r(g.get_predecessor_nodes(x)));
        cx.call("get_predecessor_node_names", xs.clone(), a, || r(g.get_predecessor_node_names(x)));
        cx.call("get_successor_nodes", xs.clone(), a, || r(g.get_successor_nodes(x)));
        cx.call("get_successor_node_names", xs.clone(), a, || r(g.get_successor_node_names(x)));
        cx.call("has_node", xs.clone(), false, || v(g.has_node(&x)));
        cx.call("get_node_degree", xs.clone(), a, || o(g.get_node_degree(x)));
        cx.call("get_node_in_degree", xs.clone(), a, || o(g.get_node_in_degree(x)));
        cx.call("get_node_out_degree", xs.clone(), a, || o(g.get_node_out_degree(x)));
        cx.call("get_node_weighted_degree", xs.clone(), a, || o(g.get_node_weighted_degree(x)));
        cx.call("get_node_weighted_in_degree", xs.clone(), a, || o(g.get_node_weighted_in_degree(x)));
        cx.call("get_node_weighted_out_degree", xs.clone(), a, || o(g.get_node_weighted_out_degree(x)));
        cx.call("node_connected_component", xs.clone(), a, || r(components::node_connected_component(g, &x)));
        for &y in &names {
            let a2 = a || is_abs(y);
            let ps = format!("{x:?}, {y:?}");
            cx.call("get_edge", ps.clone(), a2, || r(g.get_edge(x, y)));
            cx.call("get_edges", ps.clone(), a2, || r(g.get_edges(x, y)));
        }
        // shortest paths: source x, targets incl. absent
        for weighted in [false, true] {
            for first_only in [false, true] {
                for with_paths in [false, true] {
                    for cutoff in [None, Some(1.0)] {
                        for t in std::iter::once(None).chain(names.iter().map(|t| Some(*t))) {
                            let a2 = a || t.map_or(false, is_abs);
                            cx.call("single_source", format!("{weighted}, {x:?}, {t:?}, {cutoff:?}, {first_only}, {with_paths}"), a2, || r(dijkstra::single_source(g, weighted, x, t, cutoff, first_only, with_paths)));
                        }
                    }
                }
            }
        }
        // cutoffs at and beyond every representable distance (a cutoff is a numeric argument too: casts / arithmetic on it)
        for weighted in [false, true] {
            for with_paths in [false, true] {
                for cutoff in [f64::INFINITY, f64::MAX, 1.9e19] {
                    cx.call("single_source", format!("{weighted}, {x:?}, None, Some({cutoff:e}), false, {with_paths}"), a, || r(dijkstra::single_source(g, weighted, x, None, Some(cutoff), false, with_paths)));
                }
            }
        }
        // single-name node_names arguments of the clustering functions
        let one = [x];
        for weighted in [false, true] {
            cx.call("clustering", format!("{weighted}, Some([{x:?}])"), a, || r(cluster::clustering(g, weighted, Some(&one))));
            cx.call("average_clustering", format!("{weighted}, Some([{x:?}]), true"), a, || r(cluster::average_clustering(g, weighted, Some(&one), true)));
        }
        cx.call("triangles", format!("Some([{x:?}])"), a, || r(cluster::triangles(g, Some(&one))));
        cx.call("generalized_degree", format!("Some([{x:?}])"), a, || r(cluster::generalized_degree(g, Some(&one))));
    }
    // ---- functions without an error channel: present names only
    for &x in &present {
        let xs = format!("{x:?}");
        cx.call("breadth_first_search", xs.clone(), false, || v(g.breadth_first_search(&x)));
        cx.call("get_successors_or_neighbors", xs.clone(), false, || v(g.get_successors_or_neighbors(x)));
        for weighted in [false, true] {
            cx.call("get_all_shortest_paths_involving", format!("{x:?}, {weighted}"), false, || {
                let res = dijkstra::get_all_shortest_paths_involving(g, x, weighted);
                for spi in &res {
                    let _ = spi.contains_path_through_node(x);
                }
                Out::Value
            });
        }
        cx.call("square_clustering", format!("Some([{x:?}])"), false, || v(cluster::square_clustering(g, Some(&[x]))));
    }
    // ---- subsets
    for s in subsets_of(&names) {
        let a = s.contains(&ABSENT);
        let ss = format!("{s:?}");
        cx.call("has_nodes", ss.clone(), false, || v(g.has_nodes(&s)));
        cx.call("get_edges_for_nodes", ss.clone(), a, || r(g.get_edges_for_nodes(&s)));
        cx.call("get_in_edges_for_nodes", ss.clone(), a, || r(g.get_in_edges_for_nodes(&s)));
        cx.call("get_out_edges_for_nodes", ss.clone(), a, || r(g.get_out_edges_for_nodes(&s)));
        cx.call("get_subgraph", ss.clone(), false, || v(g.get_subgraph(&s)));
        if !s.is_empty() {
            for weighted in [false, true] {
                cx.call("multi_source", format!("{weighted}, {ss}, None, None, false, true"), a, || r(dijkstra::multi_source(g, weighted, s.clone(), None, None, false, true)));
            }
            if !a {
                for weighted in [false, true] {
                    cx.call("clustering", format!("{weighted}, Some({ss})"), false, || r(cluster::clustering(g, weighted, Some(&s))));
                    for cz in [false, true] {
                        cx.call("average_clustering", format!("{weighted}, Some({ss}), {cz}"), false, || r(cluster::average_clustering(g, weighted, Some(&s), cz)));
                    }
                }
                cx.call("triangles", format!("Some({ss})"), false, || r(cluster::triangles(g, Some(&s))));
                cx.call("generalized_degree", format!("Some({ss})"), false, || r(cluster::generalized_degree(g, Some(&s))));
                cx.call("square_clustering", format!("Some({ss})"), false, || v(cluster::square_clustering(g, Some(&s))));
            }
        }
    }
    // ---- slices in which a name is repeated (a valid call: the names exist)
    for &x in &present {
        for &y in &present {
            for s in [vec![x, y, x], vec![x, x]] {
                let ss = format!("{s:?}");
                cx.call("has_nodes", ss.clone(), false, || v(g.has_nodes(&s)));
                cx.call("get_subgraph", ss.clone(), false, || v(g.get_subgraph(&s)));
                cx.call("get_edges_for_nodes", ss.clone(), false, || r(g.get_edges_for_nodes(&s)));
                cx.call("get_in_edges_for_nodes", ss.clone(), false, || r(g.get_in_edges_for_nodes(&s)));
                cx.call("get_out_edges_for_nodes", ss.clone(), false, || r(g.get_out_edges_for_nodes(&s)));
                cx.call("multi_source", format!("false, {ss}, None, None, false, true"), false, || r(dijkstra::multi_source(g, false, s.clone(), None, None, false, true)));
                cx.call("clustering", format!("false, Some({ss})"), false, || r(cluster::clustering(g, false, Some(&s))));
                cx.call("average_clustering", format!("false, Some({ss}), true"), false, || r(cluster::average_clustering(g, false, Some(&s), true)));
                cx.call("triangles", format!("Some({ss})"), false, || r(cluster::triangles(g, Some(&s))));
                cx.call("generalized_degree", format!("Some({ss})"), false, || r(cluster::generalized_degree(g, Some(&s))));
                cx.call("square_clustering", format!("Some({ss})"), false, || v(cluster::square_clustering(g, Some(&s))));
            }
        }
    }
    // ---- indices
    for i in 0..=n + 1 {
        cx.call("get_node_by_index", format!("{i}"), i >= n, || o(g.get_node_by_index(&i)));
    }
    // ---- whole-graph functions
    cx.call("edges_have_weight", String::new(), false, || v(g.edges_have_weight()));
    cx.call("get_all_edges", String::new(), false, || v(g.get_all_edges()));
    cx.call("get_all_nodes", String::new(), false, || v(g.get_all_nodes()));
    cx.call("get_all_node_names", String::new(), false, || v(g.get_all_node_names()));
    cx.call("get_predecessors_map", String::new(), false, || v(g.get_predecessors_map().len()));
    cx.call("get_successors_map", String::new(), false, || v(g.get_successors_map().len()));
    cx.call("number_of_nodes", String::new(), false, || v(g.number_of_nodes()));
    cx.call("number_of_edges", String::new(), false, || v(g.number_of_edges()));
    for w in [false, true] {
        cx.call("size", format!("{w}"), false, || v(g.size(w)));
    }
    cx.call("get_degree_for_all_nodes", String::new(), false, || v(g.get_degree_for_all_nodes()));
    cx.call("get_in_degree_for_all_nodes", String::new(), false, || r(g.get_in_degree_for_all_nodes()));
    cx.call("get_out_degree_for_all_nodes", String::new(), false, || r(g.get_out_degree_for_all_nodes()));
    cx.call("get_weighted_degree_for_all_nodes", String::new(), false, || v(g.get_weighted_degree_for_all_nodes()));
    cx.call("get_weighted_in_degree_for_all_nodes", String::new(), false, || r(g.get_weighted_in_degree_for_all_nodes()));
    cx.call("get_weighted_out_degree_for_all_nodes", String::new(), false, || r(g.get_weighted_out_degree_for_all_nodes()));
    cx.call("get_density", String::new(), false, || v(g.get_density()));
    cx.call("get_sparse_adjacency_matrix", String::new(), false, || r(g.get_sparse_adjacency_matrix()));
    cx.call("reverse", String::new(), false, || r(g.reverse()));
    for w in [1.0, f64::NAN] {
        cx.call("set_all_edge_weights", format!("{w}"), false, || v(g.set_all_edge_weights(w)));
    }
    cx.call("to_single_edges", String::new(), false, || r(g.to_single_edges()));
    cx.call("ensure_directed", String::new(), false, || r(g.ensure_directed()));
    cx.call("ensure_undirected", String::new(), false, || r(g.ensure_undirected()));
    cx.call("ensure_not_multi_edges", String::new(), false, || r(g.ensure_not_multi_edges()));
    cx.call("ensure_weighted", String::new(), false, || r(g.ensure_weighted()));
    for weighted in [false, true] {
        for cutoff in [f64::INFINITY, f64::MAX] {
            cx.call("all_pairs", format!("{weighted}, None, Some({cutoff:e}), false, true"), false, || r(dijkstra::all_pairs(g, weighted, None, Some(cutoff), false, true)));
        }
    }
    // shortest paths, all pairs
    for weighted in [false, true] {
        for first_only in [false, true] {
            for with_paths in [false, true] {
                for cutoff in [None, Some(1.0)] {
                    for t in std::iter::once(None).chain(names.iter().map(|t| Some(*t))) {
                        let a = t.map_or(false, is_abs);
                        cx.call("all_pairs", format!("{weighted}, {t:?}, {cutoff:?}, {first_only}, {with_paths}"), a, || r(dijkstra::all_pairs(g, weighted, t, cutoff, first_only, with_paths)));
                    }
                }
            }
        }
        for flag in [false, true] {
            cx.call("betweenness_centrality", format!("{weighted}, {flag}"), false, || r(betweenness::betweenness_centrality(g, weighted, flag)));
            cx.call("closeness_centrality", format!("{weighted}, {flag}"), false, || r(closeness::closeness_centrality(g, weighted, flag)));
        }
        for it in [Some(1u32), Some(50), None] {
            for tol in [None, Some(1e-3)] {
                cx.call("eigenvector_centrality", format!("{weighted}, {it:?}, {tol:?}"), false, || r(eigenvector::eigenvector_centrality(g, weighted, it, tol)));
            }
        }
        cx.call("clustering", format!("{weighted}, None"), false, || r(cluster::clustering(g, weighted, None)));
        for cz in [false, true] {
            cx.call("average_clustering", format!("{weighted}, None, {cz}"), false, || r(cluster::average_clustering(g, weighted, None, cz)));
        }
        // community detection (seeded and unseeded); the observer turns a non-terminating run into a finding
        for res in [None, Some(0.5)] {
            for thr in [None, Some(0.0)] {
                for seed in [Some(0u64), Some(1), None] {
                    cx.call("louvain_partitions", format!("{weighted}, {res:?}, {thr:?}, {seed:?}"), false, || with_louvain_watch(n, || r(louvain::louvain_partitions(g, weighted, res, thr, seed))));
                    cx.call("louvain_communities", format!("{weighted}, {res:?}, {thr:?}, {seed:?}"), false, || with_louvain_watch(n, || r(louvain::louvain_communities(g, weighted, res, thr, seed))));
                }
            }
        }
    }
    cx.call("degree_centrality", String::new(), false, || v(degree::degree_centrality(g)));
    cx.call("triangles", "None".into(), false, || r(cluster::triangles(g, None)));
    cx.call("generalized_degree", "None".into(), false, || r(cluster::generalized_degree(g, None)));
    cx.call("square_clustering", "None".into(), false, || v(cluster::square_clustering(g, None)));
    cx.call("transitivity", String::new(), false, || r(cluster::transitivity(g)));
    cx.call("connected_components", String::new(), false, || r(components::connected_components(g)));
    cx.call("number_of_connected_components", String::new(), false, || r(components::number_of_connected_components(g)));
    cx.call("strongly_connected_components", String::new(), false, || r(components::strongly_connected_components(g)));
    cx.call("weakly_connected_components", String::new(), false, || r(components::weakly_connected_components(g)));
    for k in 1..=n + 1 {
        cx.call("bfs_equal_size_partitions", format!("{k}"), false, || v(components::bfs_equal_size_partitions(g, k)));
    }
    // partitions: a few families incl. the singletons, the whole set, and one with the absent name
    let singles: Vec<HashSet<N>> = present.iter().map(|x| [*x].into_iter().collect()).collect();
    let whole: Vec<HashSet<N>> = vec![present.iter().cloned().collect()];
    let foreign: Vec<HashSet<N>> = vec![names.iter().cloned().collect()];
    // a foreign name standing in for an omitted node (same member count as a true partition)
    let swapped_singles: Vec<HashSet<N>> = present.iter().enumerate().map(|(i, x)| [if i == 0 { ABSENT } else { *x }].into_iter().collect()).collect();
    let swapped_whole: Vec<HashSet<N>> = vec![present.iter().enumerate().map(|(i, x)| if i + 1 == present.len() { ABSENT } else { *x }).collect()];
    let two_blocks: Vec<HashSet<N>> = vec![present.iter().take(present.len() / 2).cloned().collect(), present.iter().skip(present.len() / 2).cloned().collect()];
    for (label, fam) in [("singletons", &singles), ("whole", &whole), ("with_absent", &foreign), ("empty", &vec![]), ("absent_for_first_node", &swapped_singles), ("absent_for_last_node", &swapped_whole), ("two_blocks", &two_blocks)] {
        cx.call("is_partition", label.into(), false, || v(partitions::is_partition(g, fam)));
        for weighted in [false, true] {
            for res in [None, Some(2.0)] {
                cx.call("modularity", format!("{label}, {weighted}, {res:?}"), label.contains("absent") && n > 0, || r(partitions::modularity(g, fam, weighted, res)));
            }
        }
    }
    // creation entry points on a rebuilt copy, incl. edges naming an absent node
    cx.call("new_from_nodes_and_edges", "own lists".into(), false, || r(G2::new_from_nodes_and_edges(g.get_all_nodes().into_iter().cloned().collect(), g.get_all_edges().into_iter().cloned().collect(), g.specs.clone())));
    for &x in &names {
        for &y in &names {
            // an absent name is refused only under MissingNodeStrategy::Error (route-built graphs may use Create)
            let a = (is_abs(x) || is_abs(y)) && g.specs.missing_node_strategy == graphrs::MissingNodeStrategy::Error;
            cx.call("add_edge", format!("{x:?}, {y:?} on a rebuilt copy"), a, || {
                let mut g2 = G2::new(g.specs.clone());
                g2.add_nodes(g.get_all_nodes().into_iter().cloned().collect());
                let _ = g2.add_edges(g.get_all_edges().into_iter().cloned().collect());
                let r1 = g2.add_edge(Edge::with_weight(x, y, 1.0));
                let _ = g2.add_edge_tuple(x, y);
                let _ = g2.add_edge_tuples(vec![(x, y), (y, x)]);
                g2.add_node(Node::from_name(x));
                r(r1)
            });
        }
    }
    // GraphML round trip of this graph
    cx.call("write_graphml_string", String::new(), false, || match graphml::write_graphml_string(g) {
        Ok(s) => {
            let _ = graphml::read_graphml_string(&s, g.specs.clone());
            Out::Value
        }
        Err(_) => Out::Refused,
    });
    cx.calls
}

/// functions that do not take a graph: called once per run
fn check_graph_free(rec: &Recorder) -> u64 {
    let mut calls = 0u64;
    let mut call = |name: &'static str, args: String, f: &mut dyn FnMut()| {
        calls += 1;
        if let Err(pi) = guarded(|| f()) {
            let clause = if pi.is_overflow() { "no_overflow" } else { "no_panic" };
            rec.record(Violation::new(clause, name, format!("free|{name}({args})"), format!("{name}({args}) panicked: {}", pi.msg)).with_panic(pi));
        }
    };
    for n in 0..=6 {
        for d in [false, true] {
            call("complete_graph", format!("{n}, {d}"), &mut || {
                let _ = graphrs::generators::classic::complete_graph(n, d);
            });
            for p in [0.0, 1e-12, 0.01, 0.5, 0.99, 1.0, -0.5, 1.5, f64::INFINITY] {
                for seed in [Some(0u64), Some(7), None] {
                    call("fast_gnp_random_graph", format!("{n}, {p}, {d}, {seed:?}"), &mut || {
                        let _ = graphrs::generators::random::fast_gnp_random_graph(n, p, d, seed);
                    });
                }
            }
        }
    }
    call("karate_club_graph", String::new(), &mut || {
        let _ = graphrs::generators::social::karate_club_graph();
    });
    call("Edge/Node/GraphSpecs helpers", String::new(), &mut || {
        let e: Arc<Edge<&str, ()>> = Edge::new("b", "a");
        let e2: Arc<Edge<&str, ()>> = Edge::with_weight("a", "b", 2.0);
        let _ = (e.ordered(), e.reversed(), e.cmp(&e2), *e == *e2, format!("{e} {e:?}"));
        let mut hs = HashSet::new();
        hs.insert(e.clone());
        let nd: Arc<Node<&str, u8>> = Node::from_name("a");
        let nd2: Arc<Node<&str, u8>> = Node::from_name_and_attributes("b", 1);
        let _ = (nd.cmp(&nd2), *nd == *nd2, format!("{nd} {nd:?}"));
        let mut hn = HashSet::new();
        hn.insert(nd);
        for s in [GraphSpecs::directed(), GraphSpecs::directed_create_missing(), GraphSpecs::undirected(), GraphSpecs::undirected_create_missing(), GraphSpecs::multi_directed(), GraphSpecs::multi_undirected()] {
            let _: Graph<&str, ()> = Graph::new(s);
        }
    });
    call("write_graphml_file / read_graphml_file", String::new(), &mut || {
        let _ = std::fs::create_dir_all("/verif/work");
        let g = graphrs::generators::social::karate_club_graph();
        let path = format!("/verif/work/c20_{}.graphml", std::process::id());
        graphml::write_graphml_file(&g, &path).expect("write");
        let _ = graphml::read_graphml_file(&path, GraphSpecs::undirected_create_missing());
        let _ = std::fs::remove_file(&path);
    });
    calls
}

/// Two-call histories across graphs on one thread: one call on graph A (every refused call and every
/// 5th other call of the table), then the whole table on a smaller graph B. Whatever the first call leaves
/// behind on the thread (scratch buffers, memo, pool state) must not make a valid call on B panic.
fn history_graphs() -> (Vec<Built>, Vec<Built>) {
    let nan = f64::NAN;
    let a = vec![
        build_custom(DS, 2, &[(0, 1, -1.0)], "hA0: a->b weight -1"),
        build_custom(DS, 3, &[(0, 1, 1.0), (1, 2, -2.0), (0, 2, 1.0)], "hA1: negative edge behind a positive one"),
        build_custom(US, 3, &[(0, 1, 2.0), (1, 2, -1.0)], "hA2: undirected path with a negative edge"),
        build_custom(US, 5, &[(0, 1, 1.0), (1, 2, 1.0), (2, 3, 1.0), (3, 4, 1.0), (0, 4, 5.0)], "hA3: weighted 5-cycle"),
        build_custom(DS, 4, &[(0, 1, nan), (1, 2, nan), (2, 0, nan), (2, 3, nan)], "hA4: directed triangle with a tail"),
        build_custom(Kind { directed: false, multi: true, loops: true }, 3, &[(0, 1, 1.0), (0, 1, 2.0), (2, 2, 1.0)], "hA5: multigraph with a loop"),
    ];
    let b = vec![
        build_custom(US, 0, &[], "hB0: empty"),
        build_custom(DS, 1, &[], "hB1: single node"),
        build_custom(US, 2, &[(0, 1, 1.0)], "hB2: one weighted edge"),
        build_custom(DS, 2, &[(1, 0, nan)], "hB3: one directed edge"),
    ];
    (a, b)
}

fn run_history(ai: usize, k: u64, bi: usize, rec: &Recorder) -> u64 {
    let (a, b) = history_graphs();
    let mut c = Counters::default();
    let dummy = Recorder::new("C20", &[]);
    ONLY_CALL.with(|o| o.set(Some(k)));
    check_api(&a[ai], &dummy, &mut c);
    ONLY_CALL.with(|o| o.set(None));
    let first = LAST_CALL.with(|l| l.borrow().clone());
    // B's own report, re-labelled with the history that led to it
    let inner = Recorder::new("C20", &[]);
    let calls = check_api(&b[bi], &inner, &mut c);
    for mut v in inner.take_all() {
        v.case = format!("h:{ai}:{k}:{bi}|{}", v.case);
        v.detail = format!("two-call history on one thread: first {first} on graph [{}], then on graph [{}]:\n{}", a[ai].case, b[bi].case, v.detail);
        v.tags.push("after_other_call_on_thread".into());
        rec.record(v);
    }
    calls + 1
}

/// Two-call histories on ONE graph object: call k of the table first (on a freshly built graph), then the whole
/// table on the same object. Whatever the first call memoises inside the graph must serve every later call.
fn run_history_same(ai: usize, k: u64, rec: &Recorder) -> u64 {
    let (mut a, _) = history_graphs();
    a.push(build_custom(US, 4, &[(0, 1, 1.0), (1, 2, 2.0), (0, 2, 1.0), (2, 3, 1.0)], "hA6: weighted triangle with a pendant node"));
    let g = &a[ai];
    let mut c = Counters::default();
    let dummy = Recorder::new("C20", &[]);
    ONLY_CALL.with(|o| o.set(Some(k)));
    check_api_one(g, &dummy, &mut c);
    ONLY_CALL.with(|o| o.set(None));
    let first = LAST_CALL.with(|l| l.borrow().clone());
    let inner = Recorder::new("C20", &[]);
    let calls = check_api_one(g, &inner, &mut c);
    for mut v in inner.take_all() {
        v.case = format!("hs:{ai}:{k}|{}", v.case);
        v.detail = format!("two-call history on one graph object: first {first} on a freshly built graph [{}], then:\n{}", g.case, v.detail);
        v.tags.push("after_other_call_on_same_graph".into());
        rec.record(v);
    }
    calls + 1
}

fn history_stage(tier: &str, rec: &Recorder, seed: u64) -> (u64, u64) {
    let (a, b) = history_graphs();
    let tot = std::sync::Mutex::new((0u64, 0u64));
    let (step, per_fn) = if tier == "quick" { (23, 6) } else { (3, 200) };
    // first pass: which calls on A are refused
    let plans: Vec<Vec<u64>> = (0..a.len())
        .map(|ai| {
            on_fresh_thread_scoped(seed, || {
                REFUSED_CALLS.with(|r| *r.borrow_mut() = Some(vec![]));
                let dummy = Recorder::new("C20", &[]);
                let mut c = Counters::default();
                let total = check_api(&a[ai], &dummy, &mut c);
                let refused = REFUSED_CALLS.with(|r| r.borrow_mut().take()).unwrap_or_default();
                // per function: the first `per_fn` refused calls (argument tuples are enumerated simplest first)
                let mut seen: std::collections::HashMap<&'static str, usize> = std::collections::HashMap::new();
                let mut ks: Vec<u64> = refused
                    .into_iter()
                    .filter(|(_, name)| {
                        let e = seen.entry(name).or_insert(0);
                        *e += 1;
                        *e <= per_fn
                    })
                    .map(|x| x.0)
                    .collect();
                ks.extend((1..=total).step_by(step));
                ks.sort();
                ks.dedup();
                ks
            })
            .unwrap_or_default()
        })
        .collect();
    let jobs: Vec<(usize, usize)> = (0..a.len()).flat_map(|ai| (0..b.len()).map(move |bi| (ai, bi))).collect();
    par_for(jobs.len(), |j| {
        let (ai, bi) = jobs[j];
        // quick: refused calls only for the larger half of the plan
        for &k in &plans[ai] {
            let r = on_fresh_thread_scoped(seed, || run_history(ai, k, bi, rec));
            if let Ok(n) = r {
                let mut t = tot.lock().unwrap();
                t.0 += 1;
                t.1 += n;
            }
        }
    });
    // the same, on one graph object (first call, then the whole table on the same object)
    let same_step = if tier == "quick" { 5 } else { 1 };
    for ai in [2usize, 3, 5, 6] {
        let total = on_fresh_thread_scoped(seed, || {
            let (mut a, _) = history_graphs();
            a.push(build_custom(US, 4, &[(0, 1, 1.0), (1, 2, 2.0), (0, 2, 1.0), (2, 3, 1.0)], "hA6: weighted triangle with a pendant node"));
            let dummy = Recorder::new("C20", &[]);
            let mut c = Counters::default();
            check_api_one(&a[ai], &dummy, &mut c)
        })
        .unwrap_or(0);
        let ks: Vec<u64> = (1..=total).step_by(same_step).collect();
        par_for(ks.len(), |j| {
            if let Ok(n) = on_fresh_thread_scoped(seed, || run_history_same(ai, ks[j], rec)) {
                let mut t = tot.lock().unwrap();
                t.0 += 1;
                t.1 += n;
            }
        });
    }
    let t = tot.lock().unwrap();
    (t.0, t.1)
}

/// named degenerate shapes beyond n = 3
fn shapes() -> Vec<(&'static str, usize, Vec<(usize, usize)>)> {
    vec![
        ("isolated node + triangle", 4, vec![(0, 1), (1, 2), (0, 2)]),
        ("star K1,3", 4, vec![(0, 1), (0, 2), (0, 3)]),
        ("path P4", 4, vec![(0, 1), (1, 2), (2, 3)]),
        ("two components", 4, vec![(0, 1), (2, 3)]),
        ("directed 4-cycle", 4, vec![(0, 1), (1, 2), (2, 3), (3, 0)]),
        ("path P5 + chord", 5, vec![(0, 1), (1, 2), (2, 3), (3, 4), (1, 3)]),
        ("two triangles sharing a node", 5, vec![(0, 1), (1, 2), (0, 2), (2, 3), (3, 4), (2, 4)]),
    ]
}

pub fn build_shape(kind: Kind, si: usize, with_loop: bool, doubled: bool) -> Built {
    let (_, n, es) = &shapes()[si];
    let names: Vec<N> = NAMES8[..*n].to_vec();
    let mut edges: Vec<(usize, usize, f64)> = es.iter().map(|&(u, v)| (u, v, f64::NAN)).collect();
    if with_loop && kind.loops {
        edges.push((n - 1, n - 1, f64::NAN));
    }
    if doubled && kind.multi {
        let e0 = edges[0];
        edges.push(e0);
    }
    let node_order: Vec<usize> = (0..*n).rev().collect();
    let mut g = G2::new(kind.specs());
    for &i in &node_order {
        g.add_node(Node::from_name(names[i]));
    }
    for &(u, v, _) in &edges {
        g.add_edge(Edge::new(names[u], names[v])).expect("shape build");
    }
    Built { kind, n: *n, names, edges, node_order, g, case: format!("x:{}:{}:{}:{}", kind.idx(), si, with_loop as u8, doubled as u8), weighted: false }
}

pub fn c20_families(tier: &str) -> Vec<Family> {
    let mut v = vec![];
    for n in 0..=2 {
        for k in kinds_all() {
            v.push(fam(k, n, "u", &ORD_ONE));
            v.push(fam(k, n, "w12", &ORD_ONE));
        }
    }
    for k in kinds_all() {
        if tier == "quick" && k.multi && k.loops {
            continue;
        }
        if tier == "quick" && (k.multi || k.loops) && k.directed {
            continue;
        }
        v.push(fam(k, 3, "u", &ORD_ONE));
    }
    v.extend(route_small("w12", true));
    v.extend(hist_small("w12", true));
    // negative weights are representable; Dijkstra must answer ContradictoryPaths or a value, and
    // whatever a failed call leaves behind must not hurt the next call on the same thread
    v.push(fam(DS, 3, "wneg", &ORD_ONE));
    v.push(fam(US, 3, "wneg", &ORD_ONE));
    v.push(fam(DS, 2, "wneg", &ORD_ONE));
    if tier != "quick" {
        v.push(fam(US, 3, "w12", &ORD_ONE));
        v.push(fam(DS, 3, "w12", &ORD_ONE));
        v.push(fam(US, 4, "u", &ORD_ONE));
    }
    v
}

pub fn run(tier: &str, rec: &Recorder) -> RunOutput {
    let start = Instant::now();
    let mut out = RunOutput::new("model_checking");
    match api_crosscheck() {
        Ok((found, table)) => {
            out.set("pub_fns_in_src", found as u64);
            out.set("functions_in_api_table", table as u64);
        }
        Err(e) => out.machinery_errors.push(e),
    }
    let deadline = start + Duration::from_secs_f64(wall_cap_s(tier));
    let stats = E2Stats::new();
    let seed = std::env::var("VERIF_SEED").ok().and_then(|s| s.parse().ok()).unwrap_or(0);
    let free_calls = check_graph_free(rec);
    for_each_family(&c20_families(tier), |f| {
        for_each_graph(f, seed, deadline, &stats, |b, c| check_api(b, rec, c));
    });
    // named shapes
    let mut shape_calls = 0u64;
    let mut shape_graphs = 0u64;
    let sh = shapes();
    let jobs: Vec<(Kind, usize, bool, bool)> = kinds_all().into_iter().flat_map(|k| (0..sh.len()).flat_map(move |si| [(k, si, false, false), (k, si, true, true)])).collect();
    let tot = std::sync::Mutex::new((0u64, 0u64));
    par_for(jobs.len(), |i| {
        let (k, si, l, d) = jobs[i];
        if (l || d) && !(k.loops || k.multi) {
            return;
        }
        let r = on_fresh_thread_scoped(seed, || {
            let b = build_shape(k, si, l, d);
            let mut c = Counters::default();
            check_api(&b, rec, &mut c)
        });
        if let Ok(k) = r {
            let mut t = tot.lock().unwrap();
            t.0 += k;
            t.1 += 1;
        }
    });
    {
        let t = tot.lock().unwrap();
        shape_calls += t.0;
        shape_graphs += t.1;
    }
    let (hist, hist_calls) = history_stage(tier, rec, seed);
    shape_calls += hist_calls;
    out.set("two_call_histories_across_graphs", hist);
    fill_e2_coverage(&mut out, &stats);
    out.add("states", shape_graphs);
    out.add("transitions", shape_calls + free_calls);
    out.set("evaluations", out.get("transitions"));
    out.set("named_shape_graphs", shape_graphs);
    out.set("traces_validated_against_impl", out.get("transitions"));
    out.set("distinct_nontrivial", out.get("states"));
    out.set("rule", "API table of every externally reachable pub fn (cross-checked at run time against `pub fn` in /repo/src) x all 8 graph kinds x every labelled graph with n<=2 (unweighted and weights {1,2}) and n=3 (unweighted) plus named n=4-5 shapes (isolated node + triangle, star, path, two components, cycle, ... with an added self-loop / doubled edge where the kind allows) x every argument tuple over the graph's names plus one absent name for functions with an error channel; built with overflow checks and debug assertions; oracle: no panic, no overflow, no hang (Louvain sweeps are observed and cut at 100 n^2 + 100), absent name => Err/None");
    out.assumptions = vec![
        "functions without an error channel are called with present names only; read_graphml_file on a missing path, bfs_equal_size_partitions(0) and negative generator sizes are outside the property".into(),
        "a wall-clock watchdog (60 s per graph) backs the sweep observer for hangs elsewhere".into(),
    ];
    out
}

pub fn replay(case: &str, rec: &Recorder) -> bool {
    let seed = std::env::var("VERIF_SEED").ok().and_then(|s| s.parse().ok()).unwrap_or(0);
    let main = case.split('|').next().unwrap_or("");
    if main.starts_with("x:") {
        let p: Vec<usize> = main.split(':').skip(1).filter_map(|x| x.parse().ok()).collect();
        if p.len() != 4 {
            return false;
        }
        for _ in 0..2 {
            let _ = on_fresh_thread_scoped(seed, || {
                let b = build_shape(Kind::from_idx(p[0]), p[1], p[2] == 1, p[3] == 1);
                println!("{}", b.describe());
                let mut c = Counters::default();
                check_api(&b, rec, &mut c);
            });
        }
        return rec.has_any();
    }
    if main.starts_with("hs:") {
        let p: Vec<u64> = main.split(':').skip(1).filter_map(|x| x.parse().ok()).collect();
        if p.len() != 2 {
            return false;
        }
        for _ in 0..2 {
            let _ = on_fresh_thread_scoped(seed, || run_history_same(p[0] as usize, p[1], rec));
        }
        return rec.has_any();
    }
    if main.starts_with("h:") {
        let p: Vec<u64> = main.split(':').skip(1).filter_map(|x| x.parse().ok()).collect();
        if p.len() != 3 {
            return false;
        }
        for _ in 0..2 {
            let _ = on_fresh_thread_scoped(seed, || run_history(p[0] as usize, p[1], p[2] as usize, rec));
        }
        return rec.has_any();
    }
    if main.starts_with("free") {
        check_graph_free(rec);
        return rec.has_any();
    }
    let dummy = Recorder::new("C20", &[]);
    for round in 0..2 {
        replay_chunk(case, &ORD_ONE, 0, seed, |b, target| {
            let mut c = Counters::default();
            if target {
                println!("round {round}: {}", b.describe());
            }
            check_api(b, if target { rec } else { &dummy }, &mut c);
        });
    }
    rec.has_any()
}
