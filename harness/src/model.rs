//! Reference model (the executable form of C01's statement), operations, the
//! 96 spec combinations and the canonical concrete snapshot of a real Graph.
#![allow(dead_code)]

use graphrs::{
    Edge, EdgeDedupeStrategy, Error, ErrorKind, Graph, GraphSpecs, MissingNodeStrategy, Node, SelfLoopsFalseStrategy, VerifSnapshot,
};
use std::hash::{Hash, Hasher};
use std::sync::Arc;

pub type N = &'static str;
pub type A = u8;
pub type G = Graph<N, A>;

pub const NAN_BITS: u64 = 0x7ff8_0000_0000_0000;
pub fn wbits(w: f64) -> u64 {
    if w.is_nan() {
        NAN_BITS
    } else {
        w.to_bits()
    }
}
pub fn wstr(bits: u64) -> String {
    if bits == NAN_BITS {
        "NaN".into()
    } else {
        format!("{:?}", f64::from_bits(bits))
    }
}

// ------------------------------------------------------------------ specs

/// mixed radix (directed, multi_edges, self_loops, dedupe in 3, missing in 2, loop strategy in 2)
pub fn spec_from_index(i: usize) -> GraphSpecs {
    assert!(i < 96);
    let mut r = i;
    let loop_s = r % 2;
    r /= 2;
    let missing = r % 2;
    r /= 2;
    let dedupe = r % 3;
    r /= 3;
    let self_loops = r % 2;
    r /= 2;
    let multi = r % 2;
    r /= 2;
    let directed = r % 2;
    GraphSpecs {
        directed: directed == 1,
        multi_edges: multi == 1,
        self_loops: self_loops == 1,
        edge_dedupe_strategy: [EdgeDedupeStrategy::Error, EdgeDedupeStrategy::KeepFirst, EdgeDedupeStrategy::KeepLast][dedupe].clone(),
        missing_node_strategy: [MissingNodeStrategy::Create, MissingNodeStrategy::Error][missing].clone(),
        self_loops_false_strategy: [SelfLoopsFalseStrategy::Error, SelfLoopsFalseStrategy::Drop][loop_s].clone(),
    }
}

pub fn spec_str(s: &GraphSpecs) -> String {
    format!(
        "{}{}{} dedupe={} missing={} loopfalse={}",
        if s.directed { "directed" } else { "undirected" },
        if s.multi_edges { ",multi" } else { ",single" },
        if s.self_loops { ",loops" } else { ",noloops" },
        match s.edge_dedupe_strategy {
            EdgeDedupeStrategy::Error => "Error",
            EdgeDedupeStrategy::KeepFirst => "KeepFirst",
            EdgeDedupeStrategy::KeepLast => "KeepLast",
        },
        match s.missing_node_strategy {
            MissingNodeStrategy::Create => "Create",
            MissingNodeStrategy::Error => "Error",
        },
        match s.self_loops_false_strategy {
            SelfLoopsFalseStrategy::Error => "Error",
            SelfLoopsFalseStrategy::Drop => "Drop",
        }
    )
}

pub fn spec_rust(s: &GraphSpecs) -> String {
    format!(
        "GraphSpecs {{ directed: {}, multi_edges: {}, self_loops: {}, edge_dedupe_strategy: EdgeDedupeStrategy::{}, missing_node_strategy: MissingNodeStrategy::{}, self_loops_false_strategy: SelfLoopsFalseStrategy::{} }}",
        s.directed,
        s.multi_edges,
        s.self_loops,
        match s.edge_dedupe_strategy {
            EdgeDedupeStrategy::Error => "Error",
            EdgeDedupeStrategy::KeepFirst => "KeepFirst",
            EdgeDedupeStrategy::KeepLast => "KeepLast",
        },
        match s.missing_node_strategy {
            MissingNodeStrategy::Create => "Create",
            MissingNodeStrategy::Error => "Error",
        },
        match s.self_loops_false_strategy {
            SelfLoopsFalseStrategy::Error => "Error",
            SelfLoopsFalseStrategy::Drop => "Drop",
        }
    )
}

// ------------------------------------------------------------------ operations

#[derive(Clone, Debug, PartialEq)]
pub struct EdgeSpec {
    pub u: N,
    pub v: N,
    pub w: u64, // bits
    pub attr: Option<A>,
}
/// Alias mode (alphabet name suffix "@alias"): within one history every occurrence of the same edge
/// specification is the SAME `Arc<Edge>` object (a caller may add an edge object twice, or add the edges
/// another graph handed out); off: every occurrence is a fresh allocation.
pub static ALIAS_MODE: std::sync::atomic::AtomicBool = std::sync::atomic::AtomicBool::new(false);
thread_local! {
    static ARC_CACHE: std::cell::RefCell<std::collections::HashMap<(N, N, u64, Option<A>), Arc<Edge<N, A>>>> = std::cell::RefCell::new(std::collections::HashMap::new());
}
pub fn alias_reset() {
    if ALIAS_MODE.load(std::sync::atomic::Ordering::Relaxed) {
        ARC_CACHE.with(|c| c.borrow_mut().clear());
    }
}

impl EdgeSpec {
    pub fn arc(&self) -> Arc<Edge<N, A>> {
        let fresh = || Arc::new(Edge { u: self.u, v: self.v, weight: f64::from_bits(self.w), attributes: self.attr });
        if ALIAS_MODE.load(std::sync::atomic::Ordering::Relaxed) {
            return ARC_CACHE.with(|c| c.borrow_mut().entry((self.u, self.v, self.w, self.attr)).or_insert_with(fresh).clone());
        }
        fresh()
    }
    pub fn rust(&self) -> String {
        let w = if self.w == NAN_BITS { "f64::NAN".to_string() } else { format!("{:?}", f64::from_bits(self.w)) };
        format!("Arc::new(Edge {{ u: {:?}, v: {:?}, weight: {}, attributes: {:?} }})", self.u, self.v, w, self.attr)
    }
}

#[derive(Clone, Debug, PartialEq)]
pub enum Op {
    AddNode(N, Option<A>),
    AddNodes(Vec<(N, Option<A>)>),
    AddEdge(EdgeSpec),
    AddEdgeTuple(N, N),
    AddEdges(Vec<EdgeSpec>),
    AddEdgeTuples(Vec<(N, N)>),
}

pub fn node_arc(n: N, a: Option<A>) -> Arc<Node<N, A>> {
    match a {
        Some(x) => Node::from_name_and_attributes(n, x),
        None => Node::from_name(n),
    }
}

impl Op {
    pub fn short(&self) -> String {
        match self {
            Op::AddNode(n, a) => format!("add_node({n},{a:?})"),
            Op::AddNodes(v) => format!("add_nodes({v:?})"),
            Op::AddEdge(e) => format!("add_edge({}->{},w={},attr={:?})", e.u, e.v, wstr(e.w), e.attr),
            Op::AddEdgeTuple(u, v) => format!("add_edge_tuple({u},{v})"),
            Op::AddEdges(es) => format!(
                "add_edges([{}])",
                es.iter().map(|e| format!("{}->{} w={} attr={:?}", e.u, e.v, wstr(e.w), e.attr)).collect::<Vec<_>>().join("; ")
            ),
            Op::AddEdgeTuples(v) => format!("add_edge_tuples({v:?})"),
        }
    }
    pub fn rust(&self) -> String {
        match self {
            Op::AddNode(n, a) => format!("g.add_node(Arc::new(Node {{ name: {n:?}, attributes: {a:?} }}));"),
            Op::AddNodes(v) => format!(
                "g.add_nodes(vec![{}]);",
                v.iter().map(|(n, a)| format!("Arc::new(Node {{ name: {n:?}, attributes: {a:?} }})")).collect::<Vec<_>>().join(", ")
            ),
            Op::AddEdge(e) => format!("let _ = g.add_edge({});", e.rust()),
            Op::AddEdgeTuple(u, v) => format!("let _ = g.add_edge_tuple({u:?}, {v:?});"),
            Op::AddEdges(es) => format!("let _ = g.add_edges(vec![{}]);", es.iter().map(|e| e.rust()).collect::<Vec<_>>().join(", ")),
            Op::AddEdgeTuples(v) => format!("let _ = g.add_edge_tuples(vec!{v:?});"),
        }
    }
    pub fn is_batch(&self) -> bool {
        matches!(self, Op::AddEdges(_) | Op::AddEdgeTuples(_) | Op::AddNodes(_))
    }
    /// the batch as the sequence of single calls it must be equivalent to
    pub fn singles(&self) -> Vec<Op> {
        match self {
            Op::AddNodes(v) => v.iter().map(|(n, a)| Op::AddNode(n, *a)).collect(),
            Op::AddEdges(es) => es.iter().map(|e| Op::AddEdge(e.clone())).collect(),
            Op::AddEdgeTuples(v) => v.iter().map(|(u, w)| Op::AddEdgeTuple(u, w)).collect(),
            o => vec![o.clone()],
        }
    }
    pub fn apply_real(&self, g: &mut G) -> ResKind {
        match self {
            Op::AddNode(n, a) => {
                g.add_node(node_arc(n, *a));
                ResKind::Ok
            }
            Op::AddNodes(v) => {
                g.add_nodes(v.iter().map(|(n, a)| node_arc(n, *a)).collect());
                ResKind::Ok
            }
            Op::AddEdge(e) => ResKind::from(g.add_edge(e.arc())),
            Op::AddEdgeTuple(u, v) => ResKind::from(g.add_edge_tuple(u, v)),
            Op::AddEdges(es) => ResKind::from(g.add_edges(es.iter().map(|e| e.arc()).collect())),
            Op::AddEdgeTuples(v) => ResKind::from(g.add_edge_tuples(v.clone())),
        }
    }
    pub fn apply_ref(&self, r: &mut RefGraph) -> ResKind {
        match self {
            Op::AddNode(n, a) => {
                r.add_node(n, *a);
                ResKind::Ok
            }
            Op::AddNodes(v) => {
                for (n, a) in v {
                    r.add_node(n, *a);
                }
                ResKind::Ok
            }
            Op::AddEdge(e) => r.add_edge(e),
            Op::AddEdgeTuple(u, v) => r.add_edge(&EdgeSpec { u, v, w: NAN_BITS, attr: None }),
            Op::AddEdges(es) => {
                for e in es {
                    let k = r.add_edge(e);
                    if k != ResKind::Ok {
                        return k;
                    }
                }
                ResKind::Ok
            }
            Op::AddEdgeTuples(v) => {
                for (u, w) in v {
                    let k = r.add_edge(&EdgeSpec { u, v: w, w: NAN_BITS, attr: None });
                    if k != ResKind::Ok {
                        return k;
                    }
                }
                ResKind::Ok
            }
        }
    }
}

#[derive(Clone, Debug, PartialEq, Eq, Hash, PartialOrd, Ord)]
pub enum ResKind {
    Ok,
    SelfLoopsFound,
    NodeNotFound,
    DuplicateEdge,
    Other(String),
}
impl ResKind {
    pub fn from(r: Result<(), Error>) -> ResKind {
        match r {
            Ok(()) => ResKind::Ok,
            Err(e) => ResKind::of_kind(&e.kind),
        }
    }
    pub fn of_kind(k: &ErrorKind) -> ResKind {
        match k {
            ErrorKind::SelfLoopsFound => ResKind::SelfLoopsFound,
            ErrorKind::NodeNotFound => ResKind::NodeNotFound,
            ErrorKind::DuplicateEdge => ResKind::DuplicateEdge,
            o => ResKind::Other(format!("{o:?}")),
        }
    }
}

pub fn kind_name(k: &ErrorKind) -> String {
    format!("{k:?}")
}

// ------------------------------------------------------------------ reference model

#[derive(Clone)]
pub struct RefGraph {
    pub specs: GraphSpecs,
    pub nodes: Vec<(N, Option<A>)>,
    pub edges: Vec<EdgeSpec>, // global insertion order
}

impl RefGraph {
    pub fn new(specs: GraphSpecs) -> RefGraph {
        RefGraph { specs, nodes: vec![], edges: vec![] }
    }
    pub fn has(&self, n: N) -> bool {
        self.nodes.iter().any(|x| x.0 == n)
    }
    pub fn add_node(&mut self, n: N, a: Option<A>) {
        match self.nodes.iter().position(|x| x.0 == n) {
            Some(i) => self.nodes[i].1 = a,
            None => self.nodes.push((n, a)),
        }
    }
    pub fn same_pair(&self, e: &EdgeSpec, u: N, v: N) -> bool {
        (e.u == u && e.v == v) || (!self.specs.directed && e.u == v && e.v == u)
    }
    pub fn add_edge(&mut self, e: &EdgeSpec) -> ResKind {
        if !self.specs.self_loops && e.u == e.v {
            return match self.specs.self_loops_false_strategy {
                SelfLoopsFalseStrategy::Error => ResKind::SelfLoopsFound,
                SelfLoopsFalseStrategy::Drop => ResKind::Ok,
            };
        }
        if self.specs.missing_node_strategy == MissingNodeStrategy::Error && (!self.has(e.u) || !self.has(e.v)) {
            return ResKind::NodeNotFound;
        }
        if !self.has(e.u) {
            self.nodes.push((e.u, None));
        }
        if !self.has(e.v) {
            self.nodes.push((e.v, None));
        }
        if self.specs.multi_edges {
            self.edges.push(e.clone());
            return ResKind::Ok;
        }
        let pos = self.edges.iter().position(|x| self.same_pair(x, e.u, e.v));
        match (pos, &self.specs.edge_dedupe_strategy) {
            (None, _) => self.edges.push(e.clone()),
            (Some(_), EdgeDedupeStrategy::Error) => return ResKind::DuplicateEdge,
            (Some(_), EdgeDedupeStrategy::KeepFirst) => {}
            (Some(i), EdgeDedupeStrategy::KeepLast) => self.edges[i] = e.clone(),
        }
        ResKind::Ok
    }
    /// canonical (pair, weight, attr) multiset, pair sorted by name when undirected
    pub fn edge_multiset(&self) -> Vec<(N, N, u64, Option<A>)> {
        let mut v: Vec<(N, N, u64, Option<A>)> = self
            .edges
            .iter()
            .map(|e| {
                let (a, b) = if !self.specs.directed && e.u > e.v { (e.v, e.u) } else { (e.u, e.v) };
                (a, b, e.w, e.attr)
            })
            .collect();
        v.sort();
        v
    }
    /// per-pair insertion sequences (multi-edge order is observable through get_edges)
    pub fn pair_sequence(&self, u: N, v: N) -> Vec<(u64, Option<A>)> {
        self.edges.iter().filter(|e| self.same_pair(e, u, v)).map(|e| (e.w, e.attr)).collect()
    }
}

// ------------------------------------------------------------------ canonical snapshot

pub type SEdge = (N, N, u64, Option<A>);

#[derive(Clone, Debug, PartialEq, Eq, Hash)]
pub struct CanonSnap {
    pub nodes_vec: Vec<(N, Option<A>)>,
    pub nodes_map: Vec<(N, usize)>,
    pub nodes_map_rev: Vec<(usize, N, Option<A>)>,
    pub edges: Vec<((N, N), Vec<SEdge>)>,
    pub edges_map: Vec<((usize, usize), Vec<SEdge>)>,
    pub successors: Vec<(N, Vec<N>)>,
    pub successors_map: Vec<(usize, Vec<usize>)>,
    pub successors_vec: Vec<Vec<(usize, u64)>>,
    pub predecessors: Vec<(N, Vec<N>)>,
    pub predecessors_map: Vec<(usize, Vec<usize>)>,
    pub predecessors_vec: Vec<Vec<(usize, u64)>>,
}

pub fn canon(s: VerifSnapshot<N, A>) -> CanonSnap {
    let ce = |v: Vec<(N, N, f64, Option<A>)>| -> Vec<SEdge> { v.into_iter().map(|(a, b, w, at)| (a, b, wbits(w), at)).collect() };
    let cadj = |v: Vec<Vec<(usize, f64)>>| -> Vec<Vec<(usize, u64)>> {
        v.into_iter().map(|l| l.into_iter().map(|(i, w)| (i, wbits(w))).collect()).collect()
    };
    CanonSnap {
        nodes_vec: s.nodes_vec,
        nodes_map: s.nodes_map,
        nodes_map_rev: s.nodes_map_rev,
        edges: s.edges.into_iter().map(|(k, v)| (k, ce(v))).collect(),
        edges_map: s.edges_map.into_iter().map(|(k, v)| (k, ce(v))).collect(),
        successors: s.successors,
        successors_map: s.successors_map,
        successors_vec: cadj(s.successors_vec),
        predecessors: s.predecessors,
        predecessors_map: s.predecessors_map,
        predecessors_vec: cadj(s.predecessors_vec),
    }
}

pub fn snap(g: &G) -> CanonSnap {
    canon(g.verif_snapshot())
}

impl CanonSnap {
    pub fn key(&self) -> u128 {
        #[allow(deprecated)]
        let mut h1 = std::hash::SipHasher::new_with_keys(0x0123_4567_89ab_cdef, 0xfedc_ba98_7654_3210);
        #[allow(deprecated)]
        let mut h2 = std::hash::SipHasher::new_with_keys(0x9e37_79b9_7f4a_7c15, 0xbf58_476d_1ce4_e5b9);
        self.hash(&mut h1);
        self.hash(&mut h2);
        ((h1.finish() as u128) << 64) | h2.finish() as u128
    }
    /// first differing field, for messages
    pub fn diff(&self, o: &CanonSnap) -> String {
        macro_rules! d {
            ($f:ident) => {
                if self.$f != o.$f {
                    return format!("{}: {:?} vs {:?}", stringify!($f), self.$f, o.$f);
                }
            };
        }
        d!(nodes_vec);
        d!(nodes_map);
        d!(nodes_map_rev);
        d!(edges);
        d!(edges_map);
        d!(successors);
        d!(successors_map);
        d!(successors_vec);
        d!(predecessors);
        d!(predecessors_map);
        d!(predecessors_vec);
        "equal".into()
    }
}

// ------------------------------------------------------------------ public base view of a real graph

pub fn real_nodes(g: &G) -> Vec<(N, Option<A>)> {
    g.get_all_nodes().iter().map(|n| (n.name, n.attributes)).collect()
}

/// stored edges exactly as stored (u, v, bits, attr), sorted
pub fn real_edges_raw(g: &G) -> Vec<SEdge> {
    let mut v: Vec<SEdge> = g.get_all_edges().iter().map(|e| (e.u, e.v, wbits(e.weight), e.attributes)).collect();
    v.sort();
    v
}

/// stored edges with the pair name-sorted when undirected, sorted
pub fn real_edge_multiset(g: &G) -> Vec<SEdge> {
    let d = g.specs.directed;
    let mut v: Vec<SEdge> = g
        .get_all_edges()
        .iter()
        .map(|e| {
            let (a, b) = if !d && e.u > e.v { (e.v, e.u) } else { (e.u, e.v) };
            (a, b, wbits(e.weight), e.attributes)
        })
        .collect();
    v.sort();
    v
}

pub fn build_real(specs: &GraphSpecs, ops: &[Op]) -> (G, Vec<ResKind>) {
    alias_reset();
    let mut g = G::new(specs.clone());
    let mut rs = vec![];
    for o in ops {
        rs.push(o.apply_real(&mut g));
    }
    (g, rs)
}

pub fn history_snippet(name: &str, specs: &GraphSpecs, ops: &[Op], tail: &str) -> String {
    let mut s = String::new();
    s.push_str("use graphrs::*; use std::sync::Arc;\n");
    s.push_str(&format!("#[test]\nfn {name}() {{\n"));
    s.push_str(&format!("    let mut g: Graph<&str, u8> = Graph::new({});\n", spec_rust(specs)));
    for o in ops {
        s.push_str(&format!("    {}\n", o.rust()));
    }
    s.push_str(tail);
    s.push_str("}\n");
    s
}
