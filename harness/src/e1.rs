//! E1 — explicit-state breadth-first search over operation histories on the real Graph.
//! A state is the canonical concrete snapshot of all private indexes; it is
//! re-materialised by replaying the shortest history that reached it.
#![allow(dead_code)]

use crate::common::*;
use crate::model::*;
use graphrs::GraphSpecs;
use std::collections::HashSet;
use std::sync::Mutex;
use std::time::Instant;

#[derive(Clone, Copy, PartialEq, Eq, Debug)]
pub struct Hist {
    pub len: u8,
    pub ops: [u16; 7],
}
impl Hist {
    pub fn empty() -> Hist {
        Hist { len: 0, ops: [0; 7] }
    }
    pub fn push(&self, o: u16) -> Hist {
        let mut h = *self;
        h.ops[h.len as usize] = o;
        h.len += 1;
        h
    }
    pub fn slice(&self) -> &[u16] {
        &self.ops[..self.len as usize]
    }
}

pub struct Alphabet {
    pub name: &'static str,
    pub names: Vec<N>,
    pub ops: Vec<Op>,
    /// ops[batch_from..] are batch operations
    pub batch_from: usize,
}

pub const NAMES3: [N; 3] = ["b", "a", "c"]; // listed in a non-sorted order on purpose

fn basic_edge_specs(names: &[N], weights: &[u64], edge_attr_variant: bool) -> Vec<EdgeSpec> {
    let mut v = vec![];
    for &u in names {
        for &w in names {
            for &wt in weights {
                v.push(EdgeSpec { u, v: w, w: wt, attr: None });
            }
            if edge_attr_variant {
                v.push(EdgeSpec { u, v: w, w: weights[0], attr: Some(7) });
            }
        }
    }
    v
}

fn build_alphabet(
    name: &'static str,
    names: &[N],
    node_attrs: &[Option<A>],
    weights: &[u64],
    edge_attr_variant: bool,
    tuple: bool,
    add_nodes: bool,
    batches: bool,
) -> Alphabet {
    let mut ops = vec![];
    for &n in names {
        for &a in node_attrs {
            ops.push(Op::AddNode(n, a));
        }
    }
    let es = basic_edge_specs(names, weights, edge_attr_variant);
    for e in &es {
        ops.push(Op::AddEdge(e.clone()));
    }
    if tuple {
        for &u in names {
            for &v in names {
                ops.push(Op::AddEdgeTuple(u, v));
            }
        }
    }
    let batch_from = ops.len();
    if add_nodes {
        for &u in names {
            for &v in names {
                ops.push(Op::AddNodes(vec![(u, node_attrs[0]), (v, *node_attrs.last().unwrap())]));
            }
        }
    }
    if batches {
        for e1 in &es {
            for e2 in &es {
                ops.push(Op::AddEdges(vec![e1.clone(), e2.clone()]));
            }
        }
        // a three-element batch whose middle element may fail: loop / duplicate in the middle
        for e1 in &es {
            ops.push(Op::AddEdges(vec![e1.clone(), EdgeSpec { u: names[0], v: names[0], w: weights[0], attr: None }, e1.clone()]));
            ops.push(Op::AddEdges(vec![e1.clone(), e1.clone(), EdgeSpec { u: names[1], v: names[0], w: weights[0], attr: None }]));
        }
        // tuple batches create unweighted edges: only in alphabets that have unweighted edges anyway
        // (the uniformly weighted alphabets of C03 / C09 must stay uniformly weighted)
        if weights.contains(&NAN_BITS) {
            for &a in names {
                for &b in names {
                    for &c in names {
                        for &d in names {
                            ops.push(Op::AddEdgeTuples(vec![(a, b), (c, d)]));
                        }
                    }
                }
            }
        }
    }
    Alphabet { name, names: names.to_vec(), ops, batch_from }
}

pub fn f(x: f64) -> u64 {
    wbits(x)
}

pub fn alphabet_by_name(name: &str) -> Alphabet {
    // "<alphabet>@alias": same operations, equal edge specifications are one shared Arc (see model::ALIAS_MODE)
    let alias = name.ends_with("@alias");
    ALIAS_MODE.store(alias, std::sync::atomic::Ordering::Relaxed);
    let name = name.trim_end_matches("@alias");
    let mut al = alphabet_plain(name);
    if alias {
        al.name = Box::leak(format!("{}@alias", al.name).into_boxed_str());
    }
    al
}

fn alphabet_plain(name: &str) -> Alphabet {
    let n2 = &NAMES3[..2];
    let n3 = &NAMES3[..];
    match name {
        // product alphabets (C01, C02, C15)
        "full2" => build_alphabet("full2", n2, &[None, Some(1), Some(2)], &[NAN_BITS, f(1.0), f(2.0)], true, true, true, true),
        "full3" => build_alphabet("full3", n3, &[None, Some(1), Some(2)], &[NAN_BITS, f(1.0), f(2.0)], true, true, true, false),
        "full3b" => build_alphabet("full3b", n3, &[None, Some(1)], &[NAN_BITS, f(1.0)], false, false, false, true),
        // slices: W = weights only, A = attributes only
        "sliceW3" => build_alphabet("sliceW3", n3, &[None], &[f(1.0), f(2.0)], false, false, false, false),
        // WA = real weights and edge attribute payloads together (same pair, same weight, different payload)
        "sliceWA2" => build_alphabet("sliceWA2", n2, &[None], &[f(1.0), f(2.0)], true, false, false, false),
        "sliceA2" => build_alphabet("sliceA2", n2, &[None, Some(1), Some(2)], &[NAN_BITS], true, false, false, false),
        // uniform weight alphabets (C03, C09)
        // w2 with batch calls (pairs, three-element batches with a failing middle element, tuple batches)
        "w2b" => build_alphabet("w2b", n2, &[None], &[f(1.0), f(2.0)], false, false, false, true),
        "nan2b" => build_alphabet("nan2b", n2, &[None], &[NAN_BITS], false, false, false, true),
        "w2" => build_alphabet("w2", n2, &[None], &[f(1.0), f(2.0), f(3.0)], false, false, false, false),
        "w3" => build_alphabet("w3", n3, &[None], &[f(1.0), f(2.0), f(3.0)], false, false, false, false),
        "w3s" => build_alphabet("w3s", n3, &[None], &[f(1.0), f(2.0)], false, false, false, false),
        // an infinite weight next to a finite one: aggregates must stay +inf (never NaN)
        "winf2" => build_alphabet("winf2", n2, &[None], &[f(1.0), f(f64::INFINITY)], false, false, false, false),
        "nan2" => build_alphabet("nan2", n2, &[None], &[NAN_BITS], false, true, false, false),
        "nan3" => build_alphabet("nan3", n3, &[None], &[NAN_BITS], false, false, false, false),
        // small product alphabet for the derived-graph property
        "mix2" => build_alphabet("mix2", n2, &[None, Some(1)], &[NAN_BITS, f(1.0), f(2.0)], true, false, false, false),
        "mix3" => build_alphabet("mix3", n3, &[None, Some(1)], &[f(1.0), f(2.0)], false, false, false, false),
        "mixn3" => build_alphabet("mixn3", n3, &[None, Some(1)], &[NAN_BITS], false, false, false, false),
        o => panic!("unknown alphabet {o}"),
    }
}

pub struct Trans<'a> {
    pub spec_idx: usize,
    pub specs: &'a GraphSpecs,
    pub alphabet: &'a Alphabet,
    pub hist: &'a [u16],
    pub op_idx: u16,
    pub op: &'a Op,
    pub before: &'a CanonSnap,
    pub after: &'a CanonSnap,
    pub g_after: &'a G,
    pub real_res: &'a ResKind,
    pub ref_before: &'a RefGraph,
    pub ref_after: &'a RefGraph,
    pub ref_res: &'a ResKind,
}

pub struct StateCtx<'a> {
    pub spec_idx: usize,
    pub specs: &'a GraphSpecs,
    pub alphabet: &'a Alphabet,
    /// a shortest history reaching this state
    pub hist: &'a [u16],
    pub g: &'a G,
    pub r: &'a RefGraph,
    pub snap: &'a CanonSnap,
}

pub fn case_id(spec_idx: usize, alphabet: &str, hist: &[u16], extra: &str) -> String {
    let h: Vec<String> = hist.iter().map(|x| x.to_string()).collect();
    if extra.is_empty() {
        format!("h:{spec_idx}:{alphabet}:{}", h.join(","))
    } else {
        format!("h:{spec_idx}:{alphabet}:{}|{extra}", h.join(","))
    }
}

pub struct ParsedCase {
    pub spec_idx: usize,
    pub alphabet: Alphabet,
    pub hist: Vec<u16>,
    pub extra: String,
}

pub fn parse_case(case: &str) -> Option<ParsedCase> {
    let (main, extra) = match case.find('|') {
        Some(i) => (&case[..i], case[i + 1..].to_string()),
        None => (case, String::new()),
    };
    let p: Vec<&str> = main.split(':').collect();
    if p.len() != 4 || p[0] != "h" {
        return None;
    }
    let spec_idx = p[1].parse().ok()?;
    let alphabet = alphabet_by_name(p[2]);
    let hist: Vec<u16> = if p[3].is_empty() { vec![] } else { p[3].split(',').map(|x| x.parse().unwrap()).collect() };
    Some(ParsedCase { spec_idx, alphabet, hist, extra })
}

pub fn ops_of(alphabet: &Alphabet, hist: &[u16]) -> Vec<Op> {
    hist.iter().map(|&i| alphabet.ops[i as usize].clone()).collect()
}

pub trait E1Oracle {
    /// read-only calls made on the graph BEFORE the next mutation is applied to the same object, so
    /// that a query -> mutate -> query history is part of every explored transition (anything a
    /// query leaves behind in the graph - a memo, a lazily built index - must survive the mutation)
    fn warmup(&mut self, _g: &G, _alphabet: &Alphabet) {}
    /// cheap digest of what the oracle's queries answer on `g`. It is mixed into the state key, so two
    /// graphs with identical private snapshots but different observable answers (state kept outside the
    /// fields the snapshot knows, e.g. a counter or memo added later) are different states and both get
    /// the full oracle. On a correct library the digest is a function of the snapshot and merges nothing less.
    fn fingerprint(&mut self, _g: &G, _alphabet: &Alphabet) -> u64 {
        0
    }
    fn transition(&mut self, _t: &Trans, _rec: &Recorder, _c: &mut Counters) {}
    fn state(&mut self, _s: &StateCtx, _rec: &Recorder, _c: &mut Counters) {}
}

pub struct E1Params {
    pub alphabet: &'static str,
    pub depth: usize,
    /// batch operations are tried from states of depth <= batch_depth
    pub batch_depth: usize,
    pub specs: Vec<usize>,
    pub max_states_per_spec: usize,
    pub deadline: Instant,
}

pub struct E1Result {
    pub states: u64,
    pub transitions: u64,
    pub counters: Counters,
    /// per spec: (states, transitions, completed depth, closed)
    pub per_spec: Vec<(usize, u64, u64, usize, bool)>,
    pub capped: bool,
    pub sample_hists: Vec<String>,
    pub max_depth_completed: usize,
}

struct SpecState {
    spec_idx: usize,
    specs: GraphSpecs,
    seen: Mutex<HashSet<u128>>,
    /// objects left behind by batch calls that already had the state oracle
    seen_batch: Mutex<HashSet<u128>>,
    frontier: Vec<Hist>,
    next: Mutex<Vec<Hist>>,
    states: Mutex<u64>,
    transitions: Mutex<u64>,
    completed: usize,
    closed: bool,
    capped: bool,
}

pub fn replay_ref(specs: &GraphSpecs, ops: &[Op]) -> RefGraph {
    let mut r = RefGraph::new(specs.clone());
    for o in ops {
        o.apply_ref(&mut r);
    }
    r
}

/// Level-synchronous parallel BFS. `mk` creates one oracle per work chunk.
pub fn explore<O: E1Oracle, F: Fn() -> O + Sync>(p: &E1Params, rec: &Recorder, mk: F) -> E1Result {
    let alphabet = alphabet_by_name(p.alphabet);
    let mut specs: Vec<SpecState> = p
        .specs
        .iter()
        .map(|&i| SpecState {
            spec_idx: i,
            specs: spec_from_index(i),
            seen: Mutex::new(HashSet::new()),
            seen_batch: Mutex::new(HashSet::new()),
            frontier: vec![Hist::empty()],
            next: Mutex::new(vec![]),
            states: Mutex::new(0),
            transitions: Mutex::new(0),
            completed: 0,
            closed: false,
            capped: false,
        })
        .collect();
    let total = Mutex::new(Counters::default());
    // initial states
    for s in specs.iter_mut() {
        let g = G::new(s.specs.clone());
        let sn = snap(&g);
        let r = RefGraph::new(s.specs.clone());
        let mut o = mk();
        let fp = guarded(|| o.fingerprint(&g, &alphabet)).unwrap_or(0xdead_beef) as u128;
        s.seen.lock().unwrap().insert(sn.key() ^ (fp << 64 | fp));
        *s.states.lock().unwrap() = 1;
        let mut c = Counters::default();
        o.state(&StateCtx { spec_idx: s.spec_idx, specs: &s.specs, alphabet: &alphabet, hist: &[], g: &g, r: &r, snap: &sn }, rec, &mut c);
        total.lock().unwrap().merge(&c);
    }
    let mut capped_any = false;
    let mut samples: Vec<String> = vec![];
    for d in 0..p.depth {
        // work list: (spec position, start, end)
        let mut work: Vec<(usize, usize, usize)> = vec![];
        for (si, s) in specs.iter().enumerate() {
            if s.closed || s.capped {
                continue;
            }
            let n = s.frontier.len();
            let chunk = 64;
            let mut a = 0;
            while a < n {
                work.push((si, a, (a + chunk).min(n)));
                a += chunk;
            }
        }
        if work.is_empty() {
            break;
        }
        let specs_ref = &specs;
        let alphabet_ref = &alphabet;
        let expand_last = d + 1 < p.depth;
        let stop = std::sync::atomic::AtomicBool::new(false);
        par_for(work.len(), |wi| {
            if stop.load(std::sync::atomic::Ordering::Relaxed) {
                return;
            }
            if Instant::now() > p.deadline {
                stop.store(true, std::sync::atomic::Ordering::Relaxed);
                return;
            }
            let (si, a, b) = work[wi];
            let s = &specs_ref[si];
            let mut o = mk();
            let mut c = Counters::default();
            let mut new_states = 0u64;
            let mut trans = 0u64;
            let mut nexts: Vec<Hist> = vec![];
            for h in &s.frontier[a..b] {
                let ops_h = ops_of(alphabet_ref, h.slice());
                let (g0, _) = build_real(&s.specs, &ops_h);
                let before = snap(&g0);
                let ref_before = replay_ref(&s.specs, &ops_h);
                let nops = if d <= p.batch_depth { alphabet_ref.ops.len() } else { alphabet_ref.batch_from };
                for oi in 0..nops {
                    let op = &alphabet_ref.ops[oi];
                    let (mut g, _) = build_real(&s.specs, &ops_h);
                    let _ = guarded(|| o.warmup(&g, alphabet_ref));
                    let res = guarded(|| op.apply_real(&mut g));
                    trans += 1;
                    let real_res = match res {
                        Ok(r) => r,
                        Err(pi) => {
                            let hist2 = h.push(oi as u16);
                            rec.record(
                                Violation::new("no_panic", &op_call_name(op), case_id(s.spec_idx, alphabet_ref.name, hist2.slice(), ""), format!("mutation panicked: {}", pi.msg))
                                    .with_panic(pi)
                                    .with_snippet(history_snippet("replay", &s.specs, &ops_of(alphabet_ref, hist2.slice()), "")),
                            );
                            continue;
                        }
                    };
                    let after = snap(&g);
                    let mut ref_after = ref_before.clone();
                    let ref_res = op.apply_ref(&mut ref_after);
                    o.transition(
                        &Trans {
                            spec_idx: s.spec_idx,
                            specs: &s.specs,
                            alphabet: alphabet_ref,
                            hist: h.slice(),
                            op_idx: oi as u16,
                            op,
                            before: &before,
                            after: &after,
                            g_after: &g,
                            real_res: &real_res,
                            ref_before: &ref_before,
                            ref_after: &ref_after,
                            ref_res: &ref_res,
                        },
                        rec,
                        &mut c,
                    );
                    if oi >= alphabet_ref.batch_from {
                        // batch results are reachable by the single calls, so they are not expanded; but the OBJECT a
                        // batch call leaves behind (in particular after a failing element) gets the state oracle too
                        let fp = guarded(|| o.fingerprint(&g, alphabet_ref)).unwrap_or(0xdead_beef) as u128;
                        let k = after.key() ^ (fp << 64 | fp);
                        let fresh = s.seen_batch.lock().unwrap().insert(k);
                        if fresh {
                            let h2 = h.push(oi as u16);
                            c.inc("post_batch_objects_checked");
                            o.state(&StateCtx { spec_idx: s.spec_idx, specs: &s.specs, alphabet: alphabet_ref, hist: h2.slice(), g: &g, r: &ref_after, snap: &after }, rec, &mut c);
                        }
                        continue;
                    }
                    let fp = guarded(|| o.fingerprint(&g, alphabet_ref)).unwrap_or(0xdead_beef) as u128;
                    let k = after.key() ^ (fp << 64 | fp);
                    let is_new = s.seen.lock().unwrap().insert(k);
                    if is_new {
                        new_states += 1;
                        let h2 = h.push(oi as u16);
                        o.state(&StateCtx { spec_idx: s.spec_idx, specs: &s.specs, alphabet: alphabet_ref, hist: h2.slice(), g: &g, r: &ref_after, snap: &after }, rec, &mut c);
                        if expand_last {
                            nexts.push(h2);
                        }
                    }
                }
            }
            *s.states.lock().unwrap() += new_states;
            *s.transitions.lock().unwrap() += trans;
            s.next.lock().unwrap().extend(nexts);
            total.lock().unwrap().merge(&c);
        });
        let timed_out = stop.load(std::sync::atomic::Ordering::Relaxed);
        for s in specs.iter_mut() {
            if s.closed || s.capped {
                continue;
            }
            if timed_out {
                s.capped = true;
                capped_any = true;
                continue;
            }
            s.completed = d + 1;
            let mut nx = std::mem::take(&mut *s.next.lock().unwrap());
            nx.sort_by(|a, b| a.slice().cmp(b.slice()));
            if samples.len() < 6 && !nx.is_empty() {
                samples.push(case_id(s.spec_idx, alphabet.name, nx[nx.len() / 2].slice(), ""));
            }
            if nx.is_empty() && expand_last {
                s.closed = true;
            }
            if *s.states.lock().unwrap() as usize > p.max_states_per_spec {
                s.capped = true;
                capped_any = true;
            }
            s.frontier = nx;
        }
        if timed_out {
            break;
        }
    }
    let mut res = E1Result {
        states: 0,
        transitions: 0,
        counters: total.into_inner().unwrap(),
        per_spec: vec![],
        capped: capped_any,
        sample_hists: samples,
        max_depth_completed: usize::MAX,
    };
    for s in &specs {
        let st = *s.states.lock().unwrap();
        let tr = *s.transitions.lock().unwrap();
        res.states += st;
        res.transitions += tr;
        res.per_spec.push((s.spec_idx, st, tr, s.completed, s.closed));
        if !s.closed {
            res.max_depth_completed = res.max_depth_completed.min(s.completed);
        }
    }
    if res.max_depth_completed == usize::MAX {
        res.max_depth_completed = p.depth;
    }
    res
}

pub fn fp_mix(h: &mut u64, x: u64) {
    *h ^= x.wrapping_add(0x9E37_79B9_7F4A_7C15).wrapping_add(*h << 6).wrapping_add(*h >> 2);
}
pub fn fp_str(h: &mut u64, s: &str) {
    for b in s.bytes() {
        fp_mix(h, b as u64);
    }
}

pub fn op_call_name(op: &Op) -> String {
    match op {
        Op::AddNode(..) => "Graph::add_node",
        Op::AddNodes(..) => "Graph::add_nodes",
        Op::AddEdge(..) => "Graph::add_edge",
        Op::AddEdgeTuple(..) => "Graph::add_edge_tuple",
        Op::AddEdges(..) => "Graph::add_edges",
        Op::AddEdgeTuples(..) => "Graph::add_edge_tuples",
    }
    .to_string()
}

/// order specs so that the expensive (permissive) ones start first
pub fn all_specs_costly_first() -> Vec<usize> {
    let mut v: Vec<usize> = (0..96).collect();
    v.sort_by_key(|&i| {
        let s = spec_from_index(i);
        let mut cost = 0;
        if s.multi_edges {
            cost += 4;
        }
        if s.self_loops {
            cost += 2;
        }
        if s.missing_node_strategy == graphrs::MissingNodeStrategy::Create {
            cost += 1;
        }
        -(cost as i32)
    });
    v
}

pub fn fill_e1_coverage(out: &mut RunOutput, r: &E1Result, p: &E1Params) {
    out.add("states", r.states);
    out.add("transitions", r.transitions);
    out.set("depth_bound", p.depth as u64);
    out.set("depth_completed_all_specs", r.max_depth_completed as u64);
    out.set("spec_combinations", p.specs.len() as u64);
    out.set("specs_closed_before_bound", r.per_spec.iter().filter(|x| x.4).count() as u64);
    out.set("exhaustive", !r.capped);
    if r.capped {
        out.set("cap_note", format!("a wall/state cap was hit; every spec completed depth >= {}", r.max_depth_completed));
    }
    for (k, v) in &r.counters.0 {
        out.add(k, *v);
    }
    for s in &r.sample_hists {
        let pc = parse_case(s).unwrap();
        let ops: Vec<String> = ops_of(&pc.alphabet, &pc.hist).iter().map(|o| o.short()).collect();
        out.sample(serde_json::json!({"case": s, "specs": spec_str(&spec_from_index(pc.spec_idx)), "history": ops}));
    }
}
