//! C12 — modularity equals Newman's formula and only true partitions are accepted.
use crate::c04::*;
use crate::common::*;
use crate::e2::*;
use crate::oracle::{close, Q};
use graphrs::algorithms::community::partitions;
use std::collections::HashSet;
use std::time::{Duration, Instant};

pub const FOREIGN: N = "zz";

/// all multisets of at most `k` subsets of a universe of `u` elements (bitmasks), as sorted lists
fn families(u: usize, k: usize) -> Vec<Vec<usize>> {
    let nsub = 1usize << u;
    let mut out: Vec<Vec<usize>> = vec![vec![]];
    fn rec(start: usize, nsub: usize, left: usize, cur: &mut Vec<usize>, out: &mut Vec<Vec<usize>>) {
        if left == 0 {
            return;
        }
        for s in start..nsub {
            cur.push(s);
            out.push(cur.clone());
            rec(s, nsub, left - 1, cur, out);
            cur.pop();
        }
    }
    rec(0, nsub, k, &mut vec![], &mut out);
    out
}

fn to_sets(b: &Built, fam: &[usize]) -> Vec<HashSet<N>> {
    fam.iter().map(|&m| (0..=b.n).filter(|i| m >> i & 1 == 1).map(|i| if i < b.n { b.names[i] } else { FOREIGN }).collect()).collect()
}

fn is_true_partition(n: usize, fam: &[usize]) -> bool {
    let mut seen = 0usize;
    for &m in fam {
        if m >> n & 1 == 1 {
            return false; // foreign
        }
        if seen & m != 0 {
            return false; // overlap
        }
        seen |= m;
    }
    seen == (1 << n) - 1
}

/// Newman modularity in exact rationals (weights are small integers)
pub fn modularity_oracle(b: &Built, fam: &[usize], weighted: bool, res_num: i128, res_den: i128) -> f64 {
    // modularity is invariant under scaling all weights: measure them in units of the smallest one
    // (exact for the power-of-two alphabets; 1 for the integer alphabets when a 1 is present)
    let unit = b.edges.iter().map(|e| e.2.abs()).filter(|x| *x > 0.0 && x.is_finite()).fold(f64::INFINITY, f64::min);
    let unit = if unit.is_finite() && b.edges.iter().all(|e| e.2.is_nan() || (e.2 / unit).fract() == 0.0) { unit } else { 1.0 };
    let w = |e: &(usize, usize, f64)| -> i128 { if weighted { (e.2 / unit) as i128 } else { 1 } };
    let m: i128 = b.edges.iter().map(w).sum();
    let mut total = Q::zero();
    for &c in fam {
        let inc = |v: usize| c >> v & 1 == 1;
        let lc: i128 = b.edges.iter().filter(|e| inc(e.0) && inc(e.1)).map(w).sum();
        let gamma = Q::new(res_num, res_den);
        if b.kind.directed {
            let so: i128 = b.edges.iter().filter(|e| inc(e.0)).map(w).sum();
            let si: i128 = b.edges.iter().filter(|e| inc(e.1)).map(w).sum();
            total = total.add(Q::new(lc, m)).add(gamma.mul(Q::new(-(so * si), m * m)));
        } else {
            let sd: i128 = b.edges.iter().map(|e| (inc(e.0) as i128 + inc(e.1) as i128) * w(e)).sum();
            total = total.add(Q::new(lc, m)).add(gamma.mul(Q::new(-(sd * sd), 4 * m * m)));
        }
    }
    total.f()
}

pub fn check_partitions(b: &Built, rec: &Recorder, c: &mut Counters, fams: &[Vec<usize>], do_is_partition: bool) -> u64 {
    let mut calls = 0u64;
    let mk = |clause: &str, call: &str, sub: String, detail: String, extra: Vec<String>| {
        let mut t = b.tags();
        t.extend(extra);
        Violation::new(clause, call, format!("{}|{sub}", b.case), format!("{}\n{detail}", b.describe())).with_tags(t).with_snippet(b.snippet(&format!("    // {call}: {}\n", detail.replace('\n', " "))))
    };
    let fam_tags = |fam: &[usize]| -> Vec<String> {
        let mut t = vec![];
        let mut seen = 0usize;
        let mut overlap = false;
        for &m in fam {
            if seen & m != 0 {
                overlap = true;
            }
            seen |= m;
        }
        let missing = seen & ((1 << b.n) - 1) != (1 << b.n) - 1;
        if overlap {
            t.push("overlapping_family".into());
        }
        if missing {
            t.push("family_missing_a_node".into());
        }
        if overlap && missing {
            t.push("overlap_and_omission".into());
        }
        if seen >> b.n & 1 == 1 {
            t.push("family_with_foreign_node".into());
        }
        t
    };
    for fam in fams {
        let sets = to_sets(b, fam);
        let truth = is_true_partition(b.n, fam);
        let desc = format!("{:?}", sets.iter().map(|s| { let mut v: Vec<&N> = s.iter().collect(); v.sort(); v }).collect::<Vec<_>>());
        if do_is_partition {
            calls += 1;
            match guarded(|| partitions::is_partition(&b.g, &sets)) {
                Err(pi) => rec.record(mk("no_panic", "partitions::is_partition", format!("isp:{fam:?}"), pi.msg.clone(), fam_tags(fam)).with_panic(pi)),
                Ok(got) => {
                    if got != truth {
                        rec.record(mk("is_partition", "partitions::is_partition", format!("isp:{fam:?}"), format!("is_partition({desc}) = {got}, expected {truth}"), fam_tags(fam)));
                    }
                }
            }
            if !truth && fam_tags(fam).contains(&"overlap_and_omission".to_string()) {
                c.inc("families_overlap_and_omission");
            }
        }
        if b.edges.is_empty() {
            continue;
        }
        let combos: Vec<(bool, (i128, i128), f64)> = if truth {
            let mut v = vec![];
            for weighted in if b.weighted { vec![false, true] } else { vec![false] } {
                for (rn, rd, rf) in [(1, 2, 0.5), (1, 1, 1.0), (2, 1, 2.0)] {
                    v.push((weighted, (rn, rd), rf));
                }
            }
            v
        } else {
            vec![(b.weighted, (1, 1), 1.0)]
        };
        for (weighted, (rn, rd), rf) in combos {
            calls += 1;
            let sub = format!("mod:{fam:?}:w={weighted}:res={rf}");
            match guarded(|| partitions::modularity(&b.g, &sets, weighted, Some(rf))) {
                Err(pi) => rec.record(mk("no_panic", "partitions::modularity", sub, format!("modularity({desc}) panicked: {}", pi.msg), fam_tags(fam)).with_panic(pi)),
                Ok(r) => {
                    if !truth {
                        match r {
                            Err(e) if format!("{:?}", e.kind) == "NotAPartition" => {}
                            o => rec.record(mk("not_a_partition", "partitions::modularity", sub, format!("modularity({desc}) = {:?}, expected Err(NotAPartition)", o.map_err(|e| e.kind)), fam_tags(fam))),
                        }
                    } else {
                        c.inc("true_partition_evaluations");
                        let exp = modularity_oracle(b, fam, weighted, rn, rd);
                        match r {
                            Ok(got) if close(got, exp, 1e-12) || (got - exp).abs() < 1e-12 => {}
                            o => rec.record(mk("modularity_value", "partitions::modularity", sub, format!("modularity({desc}, weighted={weighted}, resolution={rf}) = {:?}, Newman's formula gives {exp}", o.map_err(|e| e.kind)), fam_tags(fam))),
                        }
                    }
                }
            }
        }
    }
    calls
}

/// modularity, then one more mutation on the SAME graph object, then modularity again: the second
/// answer must be Newman's formula on the mutated graph (anything a query leaves behind in the graph
/// must survive the mutation)
pub fn check_history(b: &Built, rec: &Recorder, c: &mut Counters) -> u64 {
    use graphrs::{Edge, EdgeDedupeStrategy, GraphSpecs, Node};
    let mut calls = 0u64;
    if b.n == 0 {
        return 0;
    }
    let singles: Vec<usize> = (0..b.n).map(|v| 1usize << v).collect();
    let whole: Vec<usize> = vec![(1usize << b.n) - 1];
    for dedupe in [EdgeDedupeStrategy::Error, EdgeDedupeStrategy::KeepLast] {
        for u in 0..b.n {
            for v2 in 0..b.n {
                if u == v2 && !b.kind.loops {
                    continue;
                }
                for w in if b.weighted { vec![1.0, 3.0] } else { vec![f64::NAN] } {
                    // rebuild the graph (Graph is not Clone), warm it up with queries, mutate, query again
                    let mut g = G2::new(GraphSpecs { edge_dedupe_strategy: dedupe.clone(), ..b.kind.specs() });
                    for &i in &b.node_order {
                        g.add_node(Node::from_name(b.names[i]));
                    }
                    for &(a, z, ww) in &b.edges {
                        let _ = g.add_edge(std::sync::Arc::new(Edge { u: b.names[a], v: b.names[z], weight: ww, attributes: None }));
                    }
                    if !b.edges.is_empty() {
                        let _ = partitions::modularity(&g, &to_sets(b, &singles), b.weighted, None);
                        let _ = partitions::modularity(&g, &to_sets(b, &whole), false, Some(2.0));
                    }
                    let _ = (g.get_degree_for_all_nodes(), g.get_weighted_degree_for_all_nodes(), g.number_of_edges());
                    if g.add_edge(std::sync::Arc::new(Edge { u: b.names[u], v: b.names[v2], weight: w, attributes: None })).is_err() {
                        continue;
                    }
                    // the abstract content after the mutation, from the graph's own edge list
                    let edges: Vec<(usize, usize, f64)> = g.get_all_edges().iter().map(|e| (idx(b, e.u), idx(b, e.v), e.weight)).collect();
                    let b2 = Built { kind: b.kind, n: b.n, names: b.names.clone(), edges, node_order: b.node_order.clone(), g: G2::new(b.kind.specs()), case: b.case.clone(), weighted: b.weighted };
                    for fam in [&singles, &whole] {
                        for weighted in if b.weighted { vec![true, false] } else { vec![false] } {
                            calls += 1;
                            c.inc("history_evaluations");
                            let exp = modularity_oracle(&b2, fam, weighted, 1, 1);
                            let sub = format!("hist:{:?}:{}->{}:w={w}:{fam:?}:weighted={weighted}", dedupe_name(&dedupe), b.names[u], b.names[v2]);
                            match guarded(|| partitions::modularity(&g, &to_sets(b, fam), weighted, None)) {
                                Ok(Ok(got)) if close(got, exp, 1e-12) || (got - exp).abs() < 1e-12 => {}
                                Ok(r) => rec.record(
                                    Violation::new("modularity_after_mutation", "partitions::modularity", format!("{}|{sub}", b.case), format!("{}\nmodularity was queried, then add_edge({}, {}, {w}) under dedupe {:?}, then modularity({fam:?}, weighted={weighted}) = {:?}; Newman's formula on the mutated graph gives {exp}", b.describe(), b.names[u], b.names[v2], dedupe_name(&dedupe), r.map_err(|e| e.kind)))
                                        .with_tags(vec!["query_mutate_query".into()]),
                                ),
                                Err(pi) => rec.record(Violation::new("no_panic", "partitions::modularity", format!("{}|{sub}", b.case), pi.msg.clone()).with_panic(pi)),
                            }
                        }
                    }
                }
            }
        }
    }
    calls
}

fn dedupe_name(d: &graphrs::EdgeDedupeStrategy) -> &'static str {
    match d {
        graphrs::EdgeDedupeStrategy::Error => "Error",
        graphrs::EdgeDedupeStrategy::KeepFirst => "KeepFirst",
        graphrs::EdgeDedupeStrategy::KeepLast => "KeepLast",
    }
}

fn idx(b: &Built, name: N) -> usize {
    b.names.iter().position(|x| *x == name).unwrap()
}

pub fn c12_families(tier: &str) -> Vec<(Family, usize, bool)> {
    // (graph family, max family size, run is_partition)
    let mut v = vec![];
    let kmax = if tier == "quick" { 3 } else { 4 };
    for f in primed_small("w12", 3).into_iter().chain(route_small("w12", true)).chain(hist_small("w12", true)) {
        v.push((f, 2, true));
    }
    for n in 0..=3 {
        for k in kinds_all() {
            let heavy = k.multi && k.loops && n == 3;
            if tier == "quick" && n == 3 && (k.multi || (k.loops && k.directed)) {
                continue;
            }
            if heavy {
                continue;
            }
            v.push((fam(k, n, "u", &ORD_ONE), if n == 3 { 3 } else { kmax }, true));
            if !(n == 3 && (k.multi || k.loops)) {
                v.push((fam(k, n, "w12", &ORD_ONE), if n == 3 { 3 } else { kmax }, false));
            }
        }
    }
    v.push((fam(US, 3, "wtiny", &ORD_ONE), 3, false));
    v.push((fam(DS, 3, "whuge", &ORD_ONE), 2, false));
    if tier != "quick" {
        v.push((fam(US, 4, "u", &ORD_ONE), 3, true));
        v.push((fam(US, 4, "w12", &ORD_ONE), 2, false));
        v.push((fam(DS, 4, "u", &ORD_ONE), 2, true));
        v.push((fam(UML, 3, "u", &ORD_ONE), 2, false));
        v.push((fam(DML, 3, "u", &ORD_ONE), 2, false));
    }
    v
}

pub fn run(tier: &str, rec: &Recorder) -> RunOutput {
    let start = Instant::now();
    let mut out = RunOutput::new("model_checking");
    let deadline = start + Duration::from_secs_f64(wall_cap_s(tier));
    let stats = E2Stats::new();
    let seed = std::env::var("VERIF_SEED").ok().and_then(|s| s.parse().ok()).unwrap_or(0);
    let mut fam_counts = vec![];
    for (f, k, isp) in c12_families(tier) {
        let fams = families(f.n + 1, k);
        fam_counts.push(serde_json::json!({"family": f.label(), "set_families_per_graph": fams.len(), "max_sets": k}));
        for_each_graph(&f, seed, deadline, &stats, |b, c| check_partitions(b, rec, c, &fams, isp));
    }
    // the deep is_partition sweep: depends only on the node set, so one graph per (kind, n) with a larger family bound
    let deep_k = if tier == "quick" { 3 } else { 4 };
    for n in [3usize, 4] {
        for k in [US, DS] {
            let mut f = fam(k, n, "u", &ORD_ONE);
            f.min_edges = f.slots().len(); // only the complete graph
            let fams = families(n + 1, if n == 4 { deep_k.min(if tier == "quick" { 2 } else { 4 }) } else { 4 });
            fam_counts.push(serde_json::json!({"family": format!("{} complete graph only (is_partition sweep)", f.label()), "set_families_per_graph": fams.len()}));
            for_each_graph(&f, seed, deadline, &stats, |b, c| check_partitions(b, rec, c, &fams, true));
        }
    }
    // query -> mutate -> query histories on every small graph
    for k in kinds_all() {
        for (n, wa) in [(2usize, "w12"), (3, "u")] {
            if n == 3 && k.multi && k.loops {
                continue;
            }
            let f = fam(k, n, wa, &ORD_ONE);
            for_each_graph(&f, seed, deadline, &stats, |b, c| check_history(b, rec, c));
        }
    }
    fill_e2_coverage(&mut out, &stats);
    out.set("set_family_enumeration", serde_json::Value::Array(fam_counts));
    out.set("traces_validated_against_impl", out.get("transitions"));
    out.set("distinct_nontrivial", out.get("true_partition_evaluations"));
    out.set("rule", "every labelled graph of each family (all kinds, n<=3; n=4 in the thorough tier) x every multiset of at most k subsets of (nodes + one foreign name), including the empty set and repeated sets; is_partition compared with (pairwise disjoint, only graph nodes, covers all nodes); modularity must be Err(NotAPartition) for every non-partition and equal Newman's formula (exact rationals; parallel edges individually, a loop once in L_c and twice in the degree) for every true partition x weighted x resolution in {0.5,1,2}. distinct_nontrivial = modularity evaluations on true partitions");
    for k in ["true_partition_evaluations", "families_overlap_and_omission", "history_evaluations"] {
        out.require_nonzero(k);
    }
    out.assumptions = vec!["weights {1,2}; graphs with at least one edge for modularity; tolerance 1e-12".into()];
    out
}

pub fn replay(case: &str, rec: &Recorder) -> bool {
    let (f, idx, no, eo, _) = match parse_case(case) {
        Some(x) => x,
        None => return false,
    };
    let seed = std::env::var("VERIF_SEED").ok().and_then(|s| s.parse().ok()).unwrap_or(0);
    let fams = families(f.n + 1, if f.n <= 3 { 4 } else { 3 });
    for round in 0..2 {
        let f2 = f.clone();
        let fams2 = &fams;
        let _ = on_fresh_thread_scoped(seed, || {
            let b = build(&f2, idx, no, eo);
            println!("round {round}: {}", b.describe());
            let mut c = Counters::default();
            check_partitions(&b, rec, &mut c, fams2, true);
        });
    }
    rec.has_any()
}
