//! C03 — algorithms traverse exactly the stored edges, with their current weights.
use crate::c02::Base;
use crate::common::*;
use crate::e1::*;
use crate::model::*;
use graphrs::algorithms::centrality::{betweenness, closeness};
use graphrs::algorithms::shortest_path::dijkstra;
use graphrs::EdgeDedupeStrategy;
use std::collections::BTreeMap;
use std::time::{Duration, Instant};

pub struct C03Oracle {
    pub weighted: bool,
}

fn min_bits(ws: impl Iterator<Item = u64>) -> Option<u64> {
    let mut best: Option<f64> = None;
    let mut any = false;
    for b in ws {
        any = true;
        let w = f64::from_bits(b);
        if w.is_nan() {
            continue;
        }
        best = Some(match best {
            None => w,
            Some(x) => x.min(w),
        });
    }
    if !any {
        return None;
    }
    Some(best.map(|x| x.to_bits()).unwrap_or(NAN_BITS))
}

/// Bellman-Ford on the base view; distances by node position (None = unreachable)
pub fn bellman_ford(b: &Base, src: usize) -> Vec<Option<f64>> {
    let n = b.nodes.len();
    let pos = |x: N| b.nodes.iter().position(|y| y.0 == x).unwrap();
    let mut arcs: Vec<(usize, usize, f64)> = vec![];
    for e in &b.edges {
        let (u, v, w) = (pos(e.0), pos(e.1), f64::from_bits(e.2));
        arcs.push((u, v, w));
        if !b.directed {
            arcs.push((v, u, w));
        }
    }
    let mut d: Vec<Option<f64>> = vec![None; n];
    d[src] = Some(0.0);
    for _ in 0..n {
        for &(u, v, w) in &arcs {
            if let Some(du) = d[u] {
                if d[v].map_or(true, |dv| du + w < dv) {
                    d[v] = Some(du + w);
                }
            }
        }
    }
    d
}

/// (i) white box: traversal lists == edge store, weight used == minimum stored weight of the pair
pub fn check_traversal(b: &Base, snap: &CanonSnap, fail: &mut dyn FnMut(&str, &str, String)) {
    let n = b.nodes.len();
    let pos = |x: N| b.nodes.iter().position(|y| y.0 == x).unwrap();
    // (i) white box: traversal lists == edge store, weight used == min stored weight
    for (label, lists, succ_side) in [("successors_vec", &snap.successors_vec, true), ("predecessors_vec", &snap.predecessors_vec, false)] {
        if !succ_side && !b.directed {
            if lists.iter().any(|l| !l.is_empty()) {
                fail("traversal_neighbors", "Graph::verif_snapshot", format!("undirected graph has predecessor traversal entries {lists:?}"));
            }
            continue;
        }
        for u in 0..n {
            let mut exp: BTreeMap<usize, u64> = BTreeMap::new();
            for v in 0..n {
                let ws = b.edges.iter().filter(|e| {
                    let (a, z) = (pos(e.0), pos(e.1));
                    if b.directed {
                        if succ_side {
                            a == u && z == v
                        } else {
                            z == u && a == v
                        }
                    } else {
                        (a == u && z == v) || (a == v && z == u)
                    }
                });
                if let Some(m) = min_bits(ws.map(|e| e.2)) {
                    exp.insert(v, m);
                }
            }
            let mut got: BTreeMap<usize, u64> = BTreeMap::new();
            for &(v, w) in &lists[u] {
                let m = match got.get(&v) {
                    None => w,
                    Some(&old) => min_bits([old, w].into_iter()).unwrap(),
                };
                got.insert(v, m);
            }
            let gk: Vec<usize> = got.keys().cloned().collect();
            let ek: Vec<usize> = exp.keys().cloned().collect();
            if gk != ek {
                fail("traversal_neighbors", "Graph::verif_snapshot", format!("{label}[{u}] has neighbours {gk:?}, the edge store gives {ek:?}"));
            } else if got != exp {
                let f = |m: &BTreeMap<usize, u64>| m.iter().map(|(k, v)| format!("{k}:{}", wstr(*v))).collect::<Vec<_>>().join(",");
                fail("traversal_weight", "Graph::verif_snapshot", format!("{label}[{u}] uses weights {{{}}}, minimum stored weights are {{{}}}", f(&got), f(&exp)));
            }
        }
    }
}

fn history_tags(s: &StateCtx) -> Vec<String> {
    // predicates on the history: a duplicate add with a smaller / larger weight under a keep policy
    let mut t = vec![];
    t.push(if s.specs.directed { "directed" } else { "undirected" }.to_string());
    if s.specs.multi_edges {
        t.push("multi_edges".into());
    }
    let mut r = RefGraph::new(s.specs.clone());
    for op in ops_of(s.alphabet, s.hist) {
        if let Op::AddEdge(e) = &op {
            if let Some(old) = r.edges.iter().find(|x| r.same_pair(x, e.u, e.v)) {
                let (ow, nw) = (f64::from_bits(old.w), f64::from_bits(e.w));
                if !s.specs.multi_edges {
                    match s.specs.edge_dedupe_strategy {
                        EdgeDedupeStrategy::KeepLast if nw > ow => t.push("keeplast_larger_weight_readded".into()),
                        EdgeDedupeStrategy::KeepFirst if nw < ow => t.push("keepfirst_smaller_weight_readded".into()),
                        _ => {}
                    }
                }
                if !s.specs.directed && e.u == e.v {
                    t.push("undirected_self_loop_readded".into());
                }
            }
        }
        op.apply_ref(&mut r);
    }
    t.sort();
    t.dedup();
    t
}

fn canon_allpairs(r: &std::collections::HashMap<N, std::collections::HashMap<N, graphrs::algorithms::shortest_path::ShortestPathInfo<N>>>) -> BTreeMap<(N, N), (u64, Vec<Vec<N>>)> {
    let mut m = BTreeMap::new();
    for (s, hm) in r {
        for (t, spi) in hm {
            let mut ps = spi.paths.clone();
            ps.sort();
            m.insert((*s, *t), (spi.distance.to_bits(), ps));
        }
    }
    m
}

impl E1Oracle for C03Oracle {
    fn warmup(&mut self, g: &G, _alphabet: &Alphabet) {
        let w = self.weighted;
        let _ = dijkstra::all_pairs(g, w, None, None, false, true);
        let _ = betweenness::betweenness_centrality(g, w, false);
        let _ = closeness::closeness_centrality(g, w, false);
        let names: Vec<N> = g.get_all_node_names().into_iter().cloned().collect();
        for &n in &names {
            let _ = dijkstra::single_source(g, w, n, None, None, false, false);
        }
        // searches that stop early come LAST, so that whatever they leave behind (on the graph or on the thread)
        // is still there when the judged calls run - a complete search in between could tidy it up
        for &n in &names {
            let _ = dijkstra::single_source(g, w, n, None, Some(1.0), false, true);
        }
        for (i, &n) in names.iter().enumerate() {
            let t = names[(i + 1) % names.len()];
            let _ = dijkstra::single_source(g, w, n, Some(t), None, true, true);
        }
        if names.len() >= 2 {
            let _ = dijkstra::single_source(g, w, names[0], Some(names[1]), None, false, true);
        }
    }
    fn fingerprint(&mut self, g: &G, alphabet: &Alphabet) -> u64 {
        let mut h = 0u64;
        for &n in &alphabet.names {
            if let Ok(m) = dijkstra::single_source(g, self.weighted, n, None, None, false, false) {
                for &t in &alphabet.names {
                    fp_mix(&mut h, m.get(t).map_or(u64::MAX, |x| x.distance.to_bits()));
                }
            }
        }
        h
    }
    fn transition(&mut self, t: &Trans, rec: &Recorder, c: &mut Counters) {
        // judged IMMEDIATELY after the mutation: the warm-up ended with searches that stopped early, and any complete
        // search in between (the fingerprint's, from every source) could tidy up what they left behind
        if self.weighted && !t.op.is_batch() {
            let b = Base::of(t.g_after);
            if let Some((name, _)) = b.nodes.first() {
                let exp = bellman_ford(&b, 0);
                if let Ok(Ok(m)) = guarded(|| dijkstra::single_source(t.g_after, true, *name, None, None, false, false)) {
                    let got: Vec<Option<f64>> = b.nodes.iter().map(|(x, _)| m.get(x).map(|y| y.distance)).collect();
                    if got != exp {
                        let mut hist: Vec<u16> = t.hist.to_vec();
                        hist.push(t.op_idx);
                        let ops: Vec<String> = ops_of(t.alphabet, &hist).iter().map(|o| o.short()).collect();
                        rec.record(
                            Violation::new("dijkstra_vs_store", "dijkstra::single_source", case_id(t.spec_idx, t.alphabet.name, &hist, "after_early_stop"), format!("specs: {}\nhistory: {} (the graph before the last step was queried with searches that stop early: cutoff, target, first_only)\nstored edges: {:?}\nsource {name} right after the last step: distances {got:?}, Bellman-Ford over get_all_edges() gives {exp:?}", spec_str(t.specs), ops.join(" ; "), b.edges.iter().map(|e| (e.0, e.1, wstr(e.2))).collect::<Vec<_>>()))
                                .with_snippet(history_snippet("replay", t.specs, &ops_of(t.alphabet, &hist), "    // query with target / cutoff before the last step, then single_source from the first node\n")),
                        );
                    }
                }
            }
        }
        if let Op::AddEdge(e) = t.op {
            if *t.real_res != ResKind::Ok {
                return;
            }
            if let Some(old) = t.ref_before.edges.iter().find(|x| t.ref_before.same_pair(x, e.u, e.v)) {
                let (ow, nw) = (f64::from_bits(old.w), f64::from_bits(e.w));
                let pol = if t.specs.multi_edges {
                    "multi"
                } else {
                    match t.specs.edge_dedupe_strategy {
                        EdgeDedupeStrategy::KeepFirst => "keepfirst",
                        EdgeDedupeStrategy::KeepLast => "keeplast",
                        EdgeDedupeStrategy::Error => "error",
                    }
                };
                let key: &'static str = match (pol, nw < ow, nw > ow) {
                    ("multi", true, _) => "second_edge_smaller_multi",
                    ("multi", _, true) => "second_edge_larger_multi",
                    ("keepfirst", true, _) => "second_edge_smaller_keepfirst",
                    ("keepfirst", _, true) => "second_edge_larger_keepfirst",
                    ("keeplast", true, _) => "second_edge_smaller_keeplast",
                    ("keeplast", _, true) => "second_edge_larger_keeplast",
                    _ => "second_edge_same_weight",
                };
                c.inc(key);
            }
        }
    }

    fn state(&mut self, s: &StateCtx, rec: &Recorder, c: &mut Counters) {
        c.inc("states_checked");
        let b = Base::of(s.g);
        let n = b.nodes.len();
        let pos = |x: N| b.nodes.iter().position(|y| y.0 == x).unwrap();
        let mut tags: Option<Vec<String>> = None;
        let mut fail = |clause: &str, call: &str, detail: String| {
            let t = tags.get_or_insert_with(|| history_tags(s)).clone();
            let ops: Vec<String> = ops_of(s.alphabet, s.hist).iter().map(|o| o.short()).collect();
            rec.record(
                Violation::new(clause, call, case_id(s.spec_idx, s.alphabet.name, s.hist, ""), format!("specs: {}\nhistory: {}\nstored edges: {:?}\n{}", spec_str(s.specs), ops.join(" ; "), b.edges.iter().map(|e| (e.0, e.1, wstr(e.2))).collect::<Vec<_>>(), detail))
                    .with_tags(t)
                    .with_snippet(history_snippet("replay", s.specs, &ops_of(s.alphabet, s.hist), &format!("    // {}\n", detail.replace('\n', " ")))),
            );
        };
        check_traversal(&b, s.snap, &mut fail);
        if !self.weighted {
            return;
        }
        // (ii) black box: Dijkstra distances == Bellman-Ford on get_all_edges()
        for (src, (name, _)) in b.nodes.iter().enumerate() {
            let exp = bellman_ford(&b, src);
            match guarded(|| dijkstra::single_source(s.g, true, *name, None, None, false, false)) {
                Err(pi) => rec.record(Violation::new("no_panic", "dijkstra::single_source", case_id(s.spec_idx, s.alphabet.name, s.hist, ""), pi.msg.clone()).with_panic(pi)),
                Ok(Err(e)) => fail("dijkstra_vs_store", "dijkstra::single_source", format!("source {name}: Err({:?})", e.kind)),
                Ok(Ok(m)) => {
                    let got: Vec<Option<f64>> = b.nodes.iter().map(|(t, _)| m.get(t).map(|x| x.distance)).collect();
                    if got != exp {
                        fail("dijkstra_vs_store", "dijkstra::single_source", format!("source {name}: distances {got:?}, Bellman-Ford over get_all_edges() gives {exp:?}"));
                    }
                }
            }
        }
        // (iii) differential: the graph rebuilt from its own node and edge lists gives the same answers
        if n == 0 {
            return;
        }
        let g2 = G::new_from_nodes_and_edges(
            s.g.get_all_nodes().into_iter().cloned().collect(),
            s.g.get_all_edges().into_iter().cloned().collect(),
            graphrs::GraphSpecs { edge_dedupe_strategy: EdgeDedupeStrategy::Error, ..s.specs.clone() },
        );
        let g2 = match g2 {
            Ok(g) => g,
            Err(e) => {
                fail("rebuild", "Graph::new_from_nodes_and_edges", format!("rebuilding from get_all_nodes/get_all_edges failed: {:?}", e.kind));
                return;
            }
        };
        c.inc("differential_rebuilds");
        let r = guarded(|| {
            let a1 = dijkstra::all_pairs(s.g, true, None, None, false, true).map(|x| canon_allpairs(&x)).map_err(|e| format!("{:?}", e.kind));
            let a2 = dijkstra::all_pairs(&g2, true, None, None, false, true).map(|x| canon_allpairs(&x)).map_err(|e| format!("{:?}", e.kind));
            let mut d = vec![];
            if a1 != a2 {
                d.push(("differential_all_pairs", "dijkstra::all_pairs", format!("history graph {a1:?}\nrebuilt graph {a2:?}")));
            }
            for norm in [false, true] {
                let b1 = betweenness::betweenness_centrality(s.g, true, norm).map_err(|e| format!("{:?}", e.kind));
                let b2 = betweenness::betweenness_centrality(&g2, true, norm).map_err(|e| format!("{:?}", e.kind));
                if !maps_close(&b1, &b2) {
                    d.push(("differential_betweenness", "betweenness_centrality", format!("history graph {b1:?}\nrebuilt graph {b2:?}")));
                }
            }
            for wf in [false, true] {
                let c1 = closeness::closeness_centrality(s.g, true, wf).map_err(|e| format!("{:?}", e.kind));
                let c2 = closeness::closeness_centrality(&g2, true, wf).map_err(|e| format!("{:?}", e.kind));
                if !maps_close(&c1, &c2) {
                    d.push(("differential_closeness", "closeness_centrality", format!("history graph {c1:?}\nrebuilt graph {c2:?}")));
                }
            }
            d
        });
        match r {
            Err(pi) => rec.record(Violation::new("no_panic", "weighted algorithms", case_id(s.spec_idx, s.alphabet.name, s.hist, ""), pi.msg.clone()).with_panic(pi)),
            Ok(d) => {
                for (cl, ca, de) in d {
                    fail(cl, ca, de);
                }
            }
        }
    }
}

pub fn maps_close(a: &Result<std::collections::HashMap<N, f64>, String>, b: &Result<std::collections::HashMap<N, f64>, String>) -> bool {
    match (a, b) {
        (Ok(x), Ok(y)) => x.len() == y.len() && x.iter().all(|(k, v)| y.get(k).map_or(false, |w| (v - w).abs() <= 1e-9 * v.abs().max(w.abs()).max(1.0))),
        (Err(x), Err(y)) => x == y,
        _ => false,
    }
}

pub fn run(tier: &str, rec: &Recorder) -> RunOutput {
    let start = Instant::now();
    let mut out = RunOutput::new("model_checking");
    let cap = wall_cap_s(tier);
    let stages: Vec<(&'static str, usize, bool)> = if tier == "quick" { vec![("w2", 5, true), ("w3s", 3, true), ("nan2", 5, false), ("w2b", 3, true), ("w3", 3, true)] } else { vec![("w2", 6, true), ("w3", 4, true), ("w3s", 5, true), ("nan3", 5, false), ("w2b", 4, true), ("nan2b", 4, false)] };
    let n_st = stages.len() as f64;
    let mut notes = vec![];
    let mut ex = true;
    for (alpha, depth, weighted) in stages {
        let p = E1Params {
            alphabet: alpha,
            depth,
            batch_depth: if alpha.ends_with("2b") { 2 } else { 0 },
            specs: all_specs_costly_first(),
            max_states_per_spec: 60_000_000,
            deadline: start + Duration::from_secs_f64(cap * (notes.len() as f64 + 1.0) / n_st),
        };
        let r = explore(&p, rec, || C03Oracle { weighted });
        notes.push(serde_json::json!({"alphabet": alpha, "weighted": weighted, "depth": depth, "states": r.states, "transitions": r.transitions, "depth_completed_all_specs": r.max_depth_completed, "capped": r.capped}));
        fill_e1_coverage(&mut out, &r, &p);
        ex &= !r.capped;
    }
    out.set("exhaustive", ex);
    out.set("stages", serde_json::Value::Array(notes));
    out.set("traces_validated_against_impl", out.get("states_checked"));
    out.set("evaluations", out.get("states_checked"));
    out.set("distinct_nontrivial", out.get("states"));
    out.set("rule", "every distinct state reached by E1 histories over uniformly weighted ({1,2,3}) or uniformly unweighted edges, all 96 GraphSpecs; per state: traversal lists vs edge store (white box), Dijkstra vs Bellman-Ford on get_all_edges(), and history-built graph vs graph rebuilt from its own lists for weighted all_pairs / betweenness / closeness");
    for k in [
        "states_checked",
        "second_edge_smaller_multi",
        "second_edge_larger_multi",
        "second_edge_smaller_keepfirst",
        "second_edge_larger_keepfirst",
        "second_edge_smaller_keeplast",
        "second_edge_larger_keeplast",
        "differential_rebuilds",
    ] {
        out.require_nonzero(k);
    }
    out.assumptions = vec![
        "weights {1,2,3} (exact sums) or all NaN; names {a,b,c}; depth bound as reported".into(),
        "bfs_equal_size_partitions is not compared differentially: its output legitimately depends on adjacency order, which a rebuilt graph does not share (its validity is C10's oracle)".into(),
    ];
    out
}

pub fn replay(case: &str, rec: &Recorder) -> bool {
    let pc = match parse_case(case) {
        Some(p) => p,
        None => return false,
    };
    let specs = spec_from_index(pc.spec_idx);
    let ops = ops_of(&pc.alphabet, &pc.hist);
    let weighted = !pc.alphabet.name.starts_with("nan");
    if pc.extra == "after_early_stop" && !pc.hist.is_empty() {
        // query (warm-up, ending with searches that stop early) -> last step -> judged search, on a fresh thread
        let (pre, last) = pc.hist.split_at(pc.hist.len() - 1);
        let ops_pre = ops_of(&pc.alphabet, pre);
        let op = pc.alphabet.ops[last[0] as usize].clone();
        for _ in 0..2 {
            let _ = on_fresh_thread_scoped(0, || {
                let mut o = C03Oracle { weighted };
                let (g0, _) = build_real(&specs, &ops_pre);
                let before = snap(&g0);
                let ref_before = replay_ref(&specs, &ops_pre);
                let (mut g, _) = build_real(&specs, &ops_pre);
                o.warmup(&g, &pc.alphabet);
                let real_res = op.apply_real(&mut g);
                let after = snap(&g);
                let mut ref_after = ref_before.clone();
                let ref_res = op.apply_ref(&mut ref_after);
                let mut c = Counters::default();
                o.transition(&Trans { spec_idx: pc.spec_idx, specs: &specs, alphabet: &pc.alphabet, hist: pre, op_idx: last[0], op: &op, before: &before, after: &after, g_after: &g, real_res: &real_res, ref_before: &ref_before, ref_after: &ref_after, ref_res: &ref_res }, rec, &mut c);
            });
        }
        return rec.has_any();
    }
    for round in 0..2 {
        let (g, _) = build_real(&specs, &ops);
        let r = replay_ref(&specs, &ops);
        let sn = snap(&g);
        println!("round {round}: specs=[{}] history={:?}", spec_str(&specs), ops.iter().map(|o| o.short()).collect::<Vec<_>>());
        println!("  edges={:?}\n  successors_vec={:?}", real_edges_raw(&g).iter().map(|e| (e.0, e.1, wstr(e.2))).collect::<Vec<_>>(), sn.successors_vec.iter().map(|l| l.iter().map(|x| (x.0, wstr(x.1))).collect::<Vec<_>>()).collect::<Vec<_>>());
        let mut c = Counters::default();
        C03Oracle { weighted }.state(&StateCtx { spec_idx: pc.spec_idx, specs: &specs, alphabet: &pc.alphabet, hist: &pc.hist, g: &g, r: &r, snap: &sn }, rec, &mut c);
    }
    rec.has_any()
}
