//! E2 — bounded graph-space enumerator: every labelled graph of a family
//! (kind x n x slot assignment over a small weight alphabet x insertion orders).
#![allow(dead_code)]

use crate::common::*;
use graphrs::{Edge, EdgeDedupeStrategy, Graph, GraphSpecs, MissingNodeStrategy, Node, SelfLoopsFalseStrategy};
use std::sync::atomic::{AtomicBool, AtomicU64, Ordering};
use std::sync::Mutex;
use std::time::Instant;

pub type N = &'static str;
pub type G2 = Graph<N, ()>;
pub const NAMES8: [N; 8] = ["a", "b", "c", "d", "e", "f", "g", "h"];
pub const NAMES32: [N; 32] = [
    "n00", "n01", "n02", "n03", "n04", "n05", "n06", "n07", "n08", "n09", "n10", "n11", "n12", "n13", "n14", "n15", "n16", "n17", "n18", "n19", "n20", "n21", "n22", "n23", "n24", "n25", "n26", "n27",
    "n28", "n29", "n30", "n31",
];

/// a graph given explicitly (up to 32 nodes); nodes are inserted in descending name order
pub fn build_custom(kind: Kind, n: usize, edges: &[(usize, usize, f64)], label: &str) -> Built {
    let names: Vec<N> = NAMES32[..n].to_vec();
    let node_order: Vec<usize> = (0..n).rev().collect();
    let mut g = G2::new(kind.specs());
    for &i in &node_order {
        g.add_node(Node::from_name(names[i]));
    }
    for &(u, v, w) in edges {
        g.add_edge(std::sync::Arc::new(Edge { u: names[u], v: names[v], weight: w, attributes: None })).expect("custom build: add_edge failed");
    }
    Built { kind, n, names, edges: edges.to_vec(), node_order, g, case: format!("custom:{label}"), weighted: edges.iter().all(|e| !e.2.is_nan()) && !edges.is_empty() }
}

#[derive(Clone, Copy, Debug, PartialEq, Eq)]
pub struct Kind {
    pub directed: bool,
    pub multi: bool,
    pub loops: bool,
}
impl Kind {
    pub fn idx(&self) -> usize {
        (self.directed as usize) * 4 + (self.multi as usize) * 2 + self.loops as usize
    }
    pub fn from_idx(i: usize) -> Kind {
        Kind { directed: i & 4 != 0, multi: i & 2 != 0, loops: i & 1 != 0 }
    }
    pub fn specs(&self) -> GraphSpecs {
        GraphSpecs {
            directed: self.directed,
            multi_edges: self.multi,
            self_loops: self.loops,
            edge_dedupe_strategy: EdgeDedupeStrategy::Error,
            missing_node_strategy: MissingNodeStrategy::Error,
            self_loops_false_strategy: SelfLoopsFalseStrategy::Error,
        }
    }
    pub fn short(&self) -> String {
        format!("{}{}{}", if self.directed { "D" } else { "U" }, if self.multi { "m" } else { "s" }, if self.loops { "l" } else { "-" })
    }
}

/// weight alphabets: "u" = unweighted (NaN), others = real weights
pub fn walpha(name: &str) -> Vec<f64> {
    match name {
        "u" => vec![f64::NAN],
        "w1" => vec![1.0],
        "w12" => vec![1.0, 2.0],
        "w123" => vec![1.0, 2.0, 3.0],
        "w01" => vec![0.0, 1.0],
        "w012" => vec![0.0, 1.0, 2.0],
        "wf" => vec![0.1, 0.2, 0.3],
        "wneg" => vec![-5.0, 1.0, 2.0],
        o => panic!("unknown weight alphabet {o}"),
    }
}

#[derive(Clone, Debug)]
pub struct Family {
    pub kind: Kind,
    pub n: usize,
    pub walpha: &'static str,
    /// (node order id, edge order id) variants built for every slot assignment
    pub orders: Vec<(u8, u8)>,
    /// only graphs with at least this many edges
    pub min_edges: usize,
}

pub fn fam(kind: Kind, n: usize, walpha: &'static str, orders: &[(u8, u8)]) -> Family {
    Family { kind, n, walpha, orders: orders.to_vec(), min_edges: 0 }
}

pub const ORD_ALL: [(u8, u8); 6] = [(0, 0), (1, 0), (2, 0), (0, 1), (1, 1), (2, 1)];
pub const ORD_TWO: [(u8, u8); 2] = [(0, 0), (1, 1)];
pub const ORD_ONE: [(u8, u8); 1] = [(2, 1)];
pub const ORD_ASC: [(u8, u8); 1] = [(0, 0)];

impl Family {
    /// pair slots as (u, v) name indices
    pub fn slots(&self) -> Vec<(usize, usize)> {
        let mut s = vec![];
        for u in 0..self.n {
            for v in 0..self.n {
                if u == v && !self.kind.loops {
                    continue;
                }
                if !self.kind.directed && u > v {
                    continue;
                }
                s.push((u, v));
            }
        }
        s
    }
    /// values a slot can take: list of parallel weights (empty = absent)
    pub fn slot_values(&self) -> Vec<Vec<f64>> {
        let w = walpha(self.walpha);
        let mut v: Vec<Vec<f64>> = vec![vec![]];
        for &a in &w {
            v.push(vec![a]);
        }
        if self.kind.multi {
            for (i, &a) in w.iter().enumerate() {
                for &b in &w[i..] {
                    v.push(vec![a, b]);
                }
            }
        }
        v
    }
    pub fn count(&self) -> u64 {
        let b = self.slot_values().len() as u64;
        let mut c: u64 = 1;
        for _ in 0..self.slots().len() {
            c = c.saturating_mul(b);
        }
        c
    }
    pub fn label(&self) -> String {
        format!("{}:n{}:{}", self.kind.short(), self.n, self.walpha)
    }
}

/// One concrete graph: abstract description (name indices, sorted-name order) + the real Graph.
pub struct Built {
    pub kind: Kind,
    pub n: usize,
    pub names: Vec<N>,
    /// edges in insertion order as (u, v, w) over name indices, orientation as inserted
    pub edges: Vec<(usize, usize, f64)>,
    /// node insertion order (name indices)
    pub node_order: Vec<usize>,
    pub g: G2,
    pub case: String,
    pub weighted: bool,
}

fn digits(mut idx: u64, base: u64, len: usize) -> Vec<u8> {
    let mut d = vec![0u8; len];
    for k in 0..len {
        d[k] = (idx % base) as u8;
        idx /= base;
    }
    d
}

pub fn case_string(f: &Family, idx: u64, no: u8, eo: u8) -> String {
    format!("g:{}:{}:{}:{}:{}:{}", f.kind.idx(), f.n, f.walpha, idx, no, eo)
}

pub fn parse_case(case: &str) -> Option<(Family, u64, u8, u8, String)> {
    let (main, extra) = match case.find('|') {
        Some(i) => (&case[..i], case[i + 1..].to_string()),
        None => (case, String::new()),
    };
    let p: Vec<&str> = main.split(':').collect();
    if p.len() != 7 || p[0] != "g" {
        return None;
    }
    let wa: &'static str = ["u", "w1", "w12", "w123", "w01", "w012", "wf", "wneg"].iter().find(|x| **x == p[3]).copied()?;
    let f = Family { kind: Kind::from_idx(p[1].parse().ok()?), n: p[2].parse().ok()?, walpha: wa, orders: vec![], min_edges: 0 };
    Some((f, p[4].parse().ok()?, p[5].parse().ok()?, p[6].parse().ok()?, extra))
}

pub fn build(f: &Family, idx: u64, no: u8, eo: u8) -> Built {
    let slots = f.slots();
    let vals = f.slot_values();
    let d = digits(idx, vals.len() as u64, slots.len());
    let names: Vec<N> = NAMES8[..f.n].to_vec();
    let mut edges: Vec<(usize, usize, f64)> = vec![];
    for (k, &(u, v)) in slots.iter().enumerate() {
        for &w in &vals[d[k] as usize] {
            edges.push((u, v, w));
        }
    }
    if eo == 1 {
        edges.reverse();
        if !f.kind.directed {
            for e in edges.iter_mut() {
                *e = (e.1, e.0, e.2);
            }
        }
    }
    let node_order: Vec<usize> = match no {
        0 => (0..f.n).collect(),
        1 => (0..f.n).rev().collect(),
        _ => (0..f.n).map(|i| (i + 1) % f.n.max(1)).collect(),
    };
    let mut g = G2::new(f.kind.specs());
    for &i in &node_order {
        g.add_node(Node::from_name(names[i]));
    }
    for &(u, v, w) in &edges {
        g.add_edge(std::sync::Arc::new(Edge { u: names[u], v: names[v], weight: w, attributes: None })).expect("E2 build: add_edge failed");
    }
    Built { kind: f.kind, n: f.n, names, edges, node_order, g, case: case_string(f, idx, no, eo), weighted: f.walpha != "u" }
}

impl Built {
    pub fn describe(&self) -> String {
        format!(
            "{} graph, nodes inserted {:?}, edges inserted {:?}",
            if self.kind.directed { "directed" } else { "undirected" }.to_string() + if self.kind.multi { " multi" } else { "" } + if self.kind.loops { " (loops allowed)" } else { "" },
            self.node_order.iter().map(|&i| self.names[i]).collect::<Vec<_>>(),
            self.edges.iter().map(|&(u, v, w)| if w.is_nan() { format!("{}-{}", self.names[u], self.names[v]) } else { format!("{}-{}:{}", self.names[u], self.names[v], w) }).collect::<Vec<_>>()
        )
    }
    pub fn snippet(&self, tail: &str) -> String {
        let mut s = String::from("use graphrs::*; use std::sync::Arc;\n#[test]\nfn replay() {\n");
        s.push_str(&format!(
            "    let mut g: Graph<&str, ()> = Graph::new(GraphSpecs {{ directed: {}, multi_edges: {}, self_loops: {}, ..GraphSpecs::directed() }});\n",
            self.kind.directed, self.kind.multi, self.kind.loops
        ));
        for &i in &self.node_order {
            s.push_str(&format!("    g.add_node(Node::from_name({:?}));\n", self.names[i]));
        }
        for &(u, v, w) in &self.edges {
            if w.is_nan() {
                s.push_str(&format!("    g.add_edge(Edge::new({:?}, {:?})).unwrap();\n", self.names[u], self.names[v]));
            } else {
                s.push_str(&format!("    g.add_edge(Edge::with_weight({:?}, {:?}, {:?})).unwrap();\n", self.names[u], self.names[v], w));
            }
        }
        s.push_str(tail);
        s.push_str("}\n");
        s
    }
    pub fn tags(&self) -> Vec<String> {
        let mut t = vec![if self.kind.directed { "directed".to_string() } else { "undirected".to_string() }];
        if self.kind.multi {
            t.push("multi_edges".into());
        }
        if self.edges.iter().any(|e| e.0 == e.1) {
            t.push("has_self_loop".into());
        }
        if self.edges.is_empty() {
            t.push("no_edges".into());
        }
        if self.n == 0 {
            t.push("empty_graph".into());
        }
        let mut deg = vec![0usize; self.n];
        for e in &self.edges {
            if e.0 != e.1 {
                deg[e.0] += 1;
                deg[e.1] += 1;
            }
        }
        if deg.iter().any(|&d| d == 0) {
            t.push("has_isolated_node".into());
        }
        t
    }
}

pub const CHUNK: u64 = 32;

/// Re-runs the chunk containing `case` from its start on a fresh thread (same hash environment as
/// the original run); `f(built, is_target)` is called for every graph up to and including the target.
pub fn replay_chunk<F>(case: &str, orders: &[(u8, u8)], min_edges: usize, hash_seed: u64, f: F) -> bool
where
    F: Fn(&Built, bool) + Sync,
{
    let (fam, idx, no, eo, _) = match parse_case(case) {
        Some(x) => x,
        None => return false,
    };
    let lo = idx - idx % CHUNK;
    let r = on_fresh_thread_scoped(hash_seed, || {
        for i in lo..=idx {
            for &(n2, e2) in orders {
                let b = build(&fam, i, n2, e2);
                if b.edges.len() < min_edges {
                    continue;
                }
                let target = i == idx && n2 == no && e2 == eo;
                f(&b, target);
                if target {
                    return true;
                }
            }
        }
        false
    });
    matches!(r, Ok(true))
}

pub struct E2Stats {
    pub graphs: AtomicU64,
    pub calls: AtomicU64,
    pub capped: AtomicBool,
    pub counters: Mutex<Counters>,
    pub samples: Mutex<Vec<String>>,
    pub families: Mutex<Vec<serde_json::Value>>,
}
impl E2Stats {
    pub fn new() -> E2Stats {
        E2Stats { graphs: AtomicU64::new(0), calls: AtomicU64::new(0), capped: AtomicBool::new(false), counters: Mutex::new(Counters::default()), samples: Mutex::new(vec![]), families: Mutex::new(vec![]) }
    }
}

/// Runs `f(built, counters)` for every graph of the family (every slot assignment x every order
/// variant), in parallel, each graph on a fresh thread with hash seed `hash_seed`.
/// `f` returns the number of library calls it made.
pub fn for_each_graph<F>(fam: &Family, hash_seed: u64, deadline: Instant, stats: &E2Stats, f: F)
where
    F: Fn(&Built, &mut Counters) -> u64 + Sync,
{
    let total = fam.count();
    let chunk: u64 = CHUNK;
    let nchunks = ((total + chunk - 1) / chunk) as usize;
    let done = AtomicU64::new(0);
    let t0 = Instant::now();
    let before_graphs = stats.graphs.load(Ordering::Relaxed);
    par_for(nchunks, |ci| {
        if stats.capped.load(Ordering::Relaxed) {
            return;
        }
        if Instant::now() > deadline {
            stats.capped.store(true, Ordering::Relaxed);
            return;
        }
        let lo = ci as u64 * chunk;
        let hi = (lo + chunk).min(total);
        // one fresh thread (= one hash-key environment) per chunk; a case is replayed by
        // re-running its chunk from the start on a fresh thread with the same seed
        let r = on_fresh_thread_scoped(hash_seed, || {
            let mut c = Counters::default();
            let mut graphs = 0u64;
            let mut calls = 0u64;
            for idx in lo..hi {
                for &(no, eo) in &fam.orders {
                    let b = build(fam, idx, no, eo);
                    if b.edges.len() < fam.min_edges {
                        continue;
                    }
                    calls += f(&b, &mut c);
                    graphs += 1;
                }
            }
            (graphs, calls, c)
        });
        match r {
            Ok((graphs, calls, c)) => {
                stats.graphs.fetch_add(graphs, Ordering::Relaxed);
                stats.calls.fetch_add(calls, Ordering::Relaxed);
                stats.counters.lock().unwrap().merge(&c);
            }
            Err(pi) => {
                // the harness closure itself panicked outside a guarded library call: machinery failure
                eprintln!("MACHINERY-ERROR: harness panic in chunk {lo}..{hi} of {}: {} at {}:{}", fam.label(), pi.msg, pi.file, pi.line);
                std::process::exit(2);
            }
        }
        done.fetch_add(hi - lo, Ordering::Relaxed);
    });
    let completed = done.load(Ordering::Relaxed);
    {
        let mut s = stats.samples.lock().unwrap();
        if s.len() < 8 && total > 0 {
            let idx = total / 2 + 1;
            let (no, eo) = fam.orders[fam.orders.len() / 2];
            if idx < total {
                s.push(case_string(fam, idx, no, eo));
            }
        }
    }
    stats.families.lock().unwrap().push(serde_json::json!({
        "family": fam.label(), "slot_assignments": total, "order_variants": fam.orders.len(),
        "completed_assignments": completed, "graphs": stats.graphs.load(Ordering::Relaxed) - before_graphs,
        "complete": completed == total, "wall_s": (t0.elapsed().as_secs_f64() * 100.0).round() / 100.0
    }));
}

pub fn fill_e2_coverage(out: &mut RunOutput, stats: &E2Stats) {
    out.set("states", stats.graphs.load(Ordering::Relaxed));
    out.set("transitions", stats.calls.load(Ordering::Relaxed));
    out.set("evaluations", stats.calls.load(Ordering::Relaxed));
    out.set("exhaustive", !stats.capped.load(Ordering::Relaxed));
    out.set("families", serde_json::Value::Array(stats.families.lock().unwrap().clone()));
    for (k, v) in &stats.counters.lock().unwrap().0 {
        out.add(k, *v);
    }
    for s in stats.samples.lock().unwrap().iter() {
        if let Some((f, idx, no, eo, _)) = parse_case(s) {
            let b = build(&f, idx, no, eo);
            out.sample(serde_json::json!({"case": s, "graph": b.describe()}));
        }
    }
    if stats.capped.load(Ordering::Relaxed) {
        out.set("cap_note", "the wall-clock cap was reached; families marked complete=false were only partly enumerated");
    }
}
