//! E2 — bounded graph-space enumerator: every labelled graph of a family
//! (kind x n x slot assignment over a small weight alphabet x insertion orders).
#![allow(dead_code)]

use crate::common::*;
use graphrs::{Edge, EdgeDedupeStrategy, Graph, GraphSpecs, MissingNodeStrategy, Node, SelfLoopsFalseStrategy};
use std::sync::atomic::{AtomicBool, AtomicU64, Ordering};
use std::sync::Mutex;
use std::time::Instant;

pub type N = &'static str;
pub type G2 = Graph<N, ()>;
pub const NAMES8: [N; 8] = ["a", "b", "c", "d", "e", "f", "g", "h"];
pub const NAMES32: [N; 32] = [
    "n00", "n01", "n02", "n03", "n04", "n05", "n06", "n07", "n08", "n09", "n10", "n11", "n12", "n13", "n14", "n15", "n16", "n17", "n18", "n19", "n20", "n21", "n22", "n23", "n24", "n25", "n26", "n27",
    "n28", "n29", "n30", "n31",
];

/// a graph given explicitly (up to 32 nodes); nodes are inserted in descending name order
pub fn build_custom(kind: Kind, n: usize, edges: &[(usize, usize, f64)], label: &str) -> Built {
    let names: Vec<N> = NAMES32[..n].to_vec();
    let node_order: Vec<usize> = (0..n).rev().collect();
    let mut g = G2::new(kind.specs());
    for &i in &node_order {
        g.add_node(Node::from_name(names[i]));
    }
    for &(u, v, w) in edges {
        g.add_edge(std::sync::Arc::new(Edge { u: names[u], v: names[v], weight: w, attributes: None })).expect("custom build: add_edge failed");
    }
    Built { kind, n, names, edges: edges.to_vec(), node_order, g, case: format!("custom:{label}"), weighted: edges.iter().all(|e| !e.2.is_nan()) && !edges.is_empty() }
}

#[derive(Clone, Copy, Debug, PartialEq, Eq)]
pub struct Kind {
    pub directed: bool,
    pub multi: bool,
    pub loops: bool,
}
impl Kind {
    pub fn idx(&self) -> usize {
        (self.directed as usize) * 4 + (self.multi as usize) * 2 + self.loops as usize
    }
    pub fn from_idx(i: usize) -> Kind {
        Kind { directed: i & 4 != 0, multi: i & 2 != 0, loops: i & 1 != 0 }
    }
    pub fn specs(&self) -> GraphSpecs {
        GraphSpecs {
            directed: self.directed,
            multi_edges: self.multi,
            self_loops: self.loops,
            edge_dedupe_strategy: EdgeDedupeStrategy::Error,
            missing_node_strategy: MissingNodeStrategy::Error,
            self_loops_false_strategy: SelfLoopsFalseStrategy::Error,
        }
    }
    pub fn short(&self) -> String {
        format!("{}{}{}", if self.directed { "D" } else { "U" }, if self.multi { "m" } else { "s" }, if self.loops { "l" } else { "-" })
    }
}

/// weight alphabets: "u" = unweighted (NaN), others = real weights
pub fn walpha(name: &str) -> Vec<f64> {
    match name {
        "u" => vec![f64::NAN],
        "w1" => vec![1.0],
        "w12" => vec![1.0, 2.0],
        "w123" => vec![1.0, 2.0, 3.0],
        "w01" => vec![0.0, 1.0],
        "w012" => vec![0.0, 1.0, 2.0],
        "wf" => vec![0.1, 0.2, 0.3],
        "wf2" => vec![0.1, 0.2],
        "wf71" => vec![0.7, 0.1],
        // twenty orders of magnitude inside one graph: normalised weights and their products fall below f64::EPSILON
        "wspan" => vec![1e-20, 1.0],
        // three levels far apart: a node improved from 10 to 2 while another waits at 5
        "wlev" => vec![1.0, 5.0, 10.0],
        // exact in f64, equal after narrowing to f32 (2^24 and 2^24+1), plus a light edge
        "wf32" => vec![16777216.0, 16777217.0, 0.5],
        // node-keyed schemes: an edge is present or absent, its weight is a function of its ends (see `scheme_weight`)
        "ksrc" | "ksrc2" | "kdst" | "ksum" => vec![1.0],
        "w12inf" => vec![1.0, 2.0, f64::INFINITY],
        "wneg" => vec![-5.0, 1.0, 2.0],
        // weights whose sums overflow or are infinite (gains become NaN): only for reproducibility (C17)
        "winf" => vec![1.0, f64::INFINITY],
        "wmax" => vec![1.0, 1.0e308],
        // exact powers of two far from 1: every sum of a few of them is exact, so the oracles stay exact, while any
        // absolute tolerance or magnitude assumption in the code under check shows (scale invariance)
        "wtiny" => vec![2f64.powi(-60), 2f64.powi(-59)],
        "whuge" => vec![2f64.powi(60), 2f64.powi(61)],
        o => panic!("unknown weight alphabet {o}"),
    }
}

#[derive(Clone, Debug)]
pub struct Family {
    pub kind: Kind,
    pub n: usize,
    pub walpha: &'static str,
    /// (node order id, edge order id) variants built for every slot assignment
    pub orders: Vec<(u8, u8)>,
    /// only graphs with at least this many edges
    pub min_edges: usize,
    /// only graphs with at most this many edges (checked on the slot digits, before the graph is built)
    pub max_edges: usize,
    /// every graph is checked once after each primer call (see `primers`) made on the same thread
    pub primed: bool,
    /// query -> mutate -> query: every graph is checked, then mutated in place (see `MUTATION_LABELS`), then
    /// checked again as the mutated graph, on the same object
    pub histories: bool,
}

pub fn fam(kind: Kind, n: usize, walpha: &'static str, orders: &[(u8, u8)]) -> Family {
    Family { kind, n, walpha, orders: orders.to_vec(), min_edges: 0, max_edges: usize::MAX, primed: false, histories: false }
}

/// the same family, each graph checked after every primer call on the same thread
pub fn fam_primed(kind: Kind, n: usize, walpha: &'static str, orders: &[(u8, u8)]) -> Family {
    Family { kind, n, walpha, orders: orders.to_vec(), min_edges: 0, max_edges: usize::MAX, primed: true, histories: false }
}

/// the same family with query -> mutate -> query histories on every graph
pub fn fam_hist(kind: Kind, n: usize, walpha: &'static str, orders: &[(u8, u8)]) -> Family {
    Family { kind, n, walpha, orders: orders.to_vec(), min_edges: 0, max_edges: usize::MAX, primed: false, histories: true }
}

pub const MUTATION_LABELS: [&str; 9] = [
    "add_node(new name)",
    "add_edge on the first absent pair",
    "add_node(existing name) again",
    "add_node(new name), then add_edge from the first node to it",
    "add_edge parallel to the first edge, other weight (multi-edge kinds)",
    "add_node again for every node",
    "add_edge on the first edge's pair with a LIGHTER weight (KeepLast specs: replaced; KeepFirst specs: ignored)",
    "add_edge on the heaviest edge's pair with a weight below every other (KeepLast: replaced; KeepFirst: ignored)",
    "a REJECTED add_edge from the first node to a name that is not in the graph (MissingNodeStrategy::Error): Err, nothing changes",
];

/// applies mutation `k` to the real graph IN PLACE and to the abstract description; false = not applicable
pub fn apply_mutation(b: &mut Built, k: usize, f: &Family) -> bool {
    let w = walpha(f.walpha);
    let mk = |u: N, v: N, wt: f64| std::sync::Arc::new(Edge { u, v, weight: wt, attributes: None });
    let new_name = |b: &Built| if b.n < NAMES8.len() { Some(NAMES8[b.n]) } else { None };
    match k {
        0 | 3 => {
            let nn = match new_name(b) {
                Some(x) => x,
                None => return false,
            };
            if k == 3 && b.n == 0 {
                return false;
            }
            b.g.add_node(Node::from_name(nn));
            b.names.push(nn);
            b.node_order.push(b.n);
            b.n += 1;
            if k == 3 {
                let first = b.node_order[0];
                if b.g.add_edge(mk(b.names[first], nn, w[0])).is_err() {
                    return false;
                }
                b.edges.push((first, b.n - 1, w[0]));
            }
            true
        }
        1 => {
            for (u, v) in f.slots() {
                let present = b.edges.iter().any(|e| (e.0 == u && e.1 == v) || (!f.kind.directed && e.0 == v && e.1 == u));
                if !present {
                    if b.g.add_edge(mk(b.names[u], b.names[v], w[0])).is_err() {
                        return false;
                    }
                    b.edges.push((u, v, w[0]));
                    return true;
                }
            }
            false
        }
        2 => {
            if b.n == 0 {
                return false;
            }
            b.g.add_node(Node::from_name(b.names[b.node_order[0]]));
            true
        }
        4 => {
            if !f.kind.multi || b.edges.is_empty() {
                return false;
            }
            let (u, v, _) = b.edges[0];
            let wt = *w.last().unwrap();
            if b.g.add_edge(mk(b.names[u], b.names[v], wt)).is_err() {
                return false;
            }
            b.edges.push((u, v, wt));
            true
        }
        6 | 7 => {
            // only on single-edge graphs whose specs keep the last / the first of two duplicates (routes 5 and 6)
            let strategy = b.g.specs.edge_dedupe_strategy.clone();
            if f.kind.multi || b.edges.is_empty() || matches!(strategy, EdgeDedupeStrategy::Error) || b.edges.iter().any(|e| e.2.is_nan()) {
                return false;
            }
            let ei = if k == 6 { 0 } else { (0..b.edges.len()).max_by(|&x, &y| b.edges[x].2.partial_cmp(&b.edges[y].2).unwrap()).unwrap() };
            let (u, v, old) = b.edges[ei];
            let lightest = b.edges.iter().map(|e| e.2).fold(f64::INFINITY, f64::min);
            let wt = if k == 6 { old / 2.0 } else { lightest / 4.0 };
            if b.g.add_edge(mk(b.names[u], b.names[v], wt)).is_err() {
                return false;
            }
            if matches!(strategy, EdgeDedupeStrategy::KeepLast) {
                b.edges[ei] = (u, v, wt);
            }
            true
        }
        8 => {
            // a refused call is part of a history too: whatever it wrote before it was refused is read by the next query
            if b.n == 0 || !matches!(b.g.specs.missing_node_strategy, MissingNodeStrategy::Error) {
                return false;
            }
            let first = b.names[b.node_order[0]];
            b.g.add_edge(mk(first, "not-a-node", w[0])).is_err() && b.g.add_edge(mk("not-a-node", first, w[0])).is_err()
        }
        _ => {
            if b.n == 0 {
                return false;
            }
            for i in b.node_order.clone() {
                b.g.add_node(Node::from_name(b.names[i]));
            }
            true
        }
    }
}

thread_local! {
    static CONTEXT_NOTE: std::cell::RefCell<Option<String>> = const { std::cell::RefCell::new(None) };
}
/// free-text context shown in front of `describe()` (e.g. "the graph under check is reverse() of:")
pub fn set_context_note(s: Option<String>) {
    CONTEXT_NOTE.with(|c| *c.borrow_mut() = s);
}

thread_local! {
    static CURRENT_MUTATION: std::cell::Cell<Option<usize>> = const { std::cell::Cell::new(None) };
}

thread_local! {
    static CURRENT_PRIMER: std::cell::Cell<Option<usize>> = const { std::cell::Cell::new(None) };
}

/// Primer calls: one library call each, on a fixed graph that is LARGER than the graphs under check and
/// that exits early / fails / succeeds in different ways. Whatever such a call leaves behind on the
/// thread (scratch buffers, memo tables, pool state) must not change any later answer: a primed family
/// re-checks every graph in the state after each primer (two-call histories across graphs).
pub const PRIMER_LABELS: [&str; 13] = [
    "single_source(weighted, target reached early, with_paths) on a 9-node weighted graph",
    "single_source(weighted, cutoff 1.5, first_only) on a 9-node weighted graph",
    "single_source(weighted) returning ContradictoryPaths on a 6-node digraph with a negative edge",
    "single_source(weighted, with_paths, target) returning ContradictoryPaths on a 6-node digraph",
    "all_pairs(weighted, cutoff 2, with_paths) on a 9-node weighted graph",
    "multi_source(weighted, target, first_only) on a 9-node weighted graph",
    "betweenness_centrality(weighted, normalized) on a 9-node weighted graph",
    "closeness_centrality(weighted) on a 9-node weighted digraph",
    "write_graphml_string then read_graphml_string of a 9-node weighted graph",
    "louvain_partitions(weighted, seed 1) and modularity on a 9-node weighted graph",
    "clustering(weighted), triangles, square_clustering on a 9-node weighted graph",
    "eigenvector_centrality(weighted) on a 9-node weighted graph",
    "all_pairs(weighted) on the forced parallel path returning ContradictoryPaths on a 6-node digraph",
];

fn primer_graphs() -> (G2, G2, G2) {
    let names = &NAMES32[..9];
    let mk = |directed: bool, edges: &[(usize, usize, f64)], n: usize| {
        let mut g = G2::new(if directed { GraphSpecs::directed() } else { GraphSpecs::undirected() });
        for i in (0..n).rev() {
            g.add_node(Node::from_name(names[i]));
        }
        for &(u, v, w) in edges {
            g.add_edge(std::sync::Arc::new(Edge { u: names[u], v: names[v], weight: w, attributes: None })).expect("primer graph");
        }
        g
    };
    let und: Vec<(usize, usize, f64)> = vec![(0, 1, 1.0), (1, 2, 2.0), (2, 3, 1.0), (3, 4, 3.0), (4, 5, 1.0), (5, 6, 2.0), (6, 7, 1.0), (7, 8, 1.0), (8, 0, 4.0), (0, 4, 2.0), (2, 6, 5.0), (1, 7, 1.0), (3, 8, 2.0)];
    // 0->1 (1), 0->2 (2), 2->1 (-5): node 1 is settled at distance 1 before 2 is expanded and would improve it to -3,
    // so every search that reaches node 0 ends in ContradictoryPaths
    let neg: Vec<(usize, usize, f64)> = vec![(0, 1, 1.0), (0, 2, 2.0), (2, 1, -5.0), (1, 3, 1.0), (3, 4, 1.0), (4, 5, 1.0), (5, 0, 1.0)];
    (mk(false, &und, 9), mk(true, &und, 9), mk(true, &neg, 6))
}

pub fn run_primer(k: usize) {
    use graphrs::algorithms::centrality::{betweenness, closeness, eigenvector};
    use graphrs::algorithms::cluster;
    use graphrs::algorithms::community::{louvain, partitions};
    use graphrs::algorithms::shortest_path::dijkstra;
    use graphrs::readwrite::graphml;
    let (u, d, neg) = primer_graphs();
    let nm = &NAMES32[..9];
    // outcomes are not judged here (the checks judge these functions on their own inputs)
    let _ = guarded(|| match k {
        0 => drop(dijkstra::single_source(&u, true, nm[0], Some(nm[1]), None, false, true)),
        1 => drop(dijkstra::single_source(&u, true, nm[3], None, Some(1.5), true, false)),
        2 => drop(dijkstra::single_source(&neg, true, nm[0], None, None, false, false)),
        3 => drop(dijkstra::single_source(&neg, true, nm[0], Some(nm[5]), None, false, true)),
        4 => drop(dijkstra::all_pairs(&u, true, None, Some(2.0), false, true)),
        5 => drop(dijkstra::multi_source(&u, true, vec![nm[8], nm[2]], Some(nm[3]), None, true, false)),
        6 => drop(betweenness::betweenness_centrality(&u, true, true)),
        7 => drop(closeness::closeness_centrality(&d, true, true)),
        8 => {
            if let Ok(s) = graphml::write_graphml_string(&u) {
                drop(graphml::read_graphml_string(&s, GraphSpecs::undirected()));
            }
        }
        9 => {
            if let Ok(p) = louvain::louvain_partitions(&u, true, None, None, Some(1)) {
                if let Some(last) = p.last() {
                    drop(partitions::modularity(&u, last, true, None));
                }
            }
        }
        10 => {
            drop(cluster::clustering(&u, true, None));
            drop(cluster::triangles(&u, None));
            drop(cluster::square_clustering(&u, None));
        }
        11 => drop(eigenvector::eigenvector_centrality(&u, true, None, None)),
        _ => {
            graphrs::verif_hooks::set_parallel_override(Some(true));
            drop(dijkstra::all_pairs(&neg, true, None, None, false, true));
            graphrs::verif_hooks::set_parallel_override(None);
        }
    });
}

pub const ORD_ALL: [(u8, u8); 6] = [(0, 0), (1, 0), (2, 0), (0, 1), (1, 1), (2, 1)];
pub const ORD_TWO: [(u8, u8); 2] = [(0, 0), (1, 1)];
pub const ORD_ONE: [(u8, u8); 1] = [(2, 1)];
pub const ORD_ASC: [(u8, u8); 1] = [(0, 0)];

impl Family {
    /// pair slots as (u, v) name indices
    pub fn slots(&self) -> Vec<(usize, usize)> {
        let mut s = vec![];
        for u in 0..self.n {
            for v in 0..self.n {
                if u == v && !self.kind.loops {
                    continue;
                }
                if !self.kind.directed && u > v {
                    continue;
                }
                s.push((u, v));
            }
        }
        s
    }
    /// values a slot can take: list of parallel weights (empty = absent)
    pub fn slot_values(&self) -> Vec<Vec<f64>> {
        let w = walpha(self.walpha);
        let mut v: Vec<Vec<f64>> = vec![vec![]];
        for &a in &w {
            v.push(vec![a]);
        }
        if self.kind.multi {
            for (i, &a) in w.iter().enumerate() {
                for &b in &w[i..] {
                    v.push(vec![a, b]);
                }
            }
        }
        v
    }
    pub fn count(&self) -> u64 {
        let b = self.slot_values().len() as u64;
        let mut c: u64 = 1;
        for _ in 0..self.slots().len() {
            c = c.saturating_mul(b);
        }
        c
    }
    pub fn label(&self) -> String {
        format!("{}:n{}:{}{}", self.kind.short(), self.n, self.walpha, if self.primed { ":primed" } else if self.histories { ":histories" } else { "" })
    }
}

/// One concrete graph: abstract description (name indices, sorted-name order) + the real Graph.
pub struct Built {
    pub kind: Kind,
    pub n: usize,
    pub names: Vec<N>,
    /// edges in insertion order as (u, v, w) over name indices, orientation as inserted
    pub edges: Vec<(usize, usize, f64)>,
    /// node insertion order (name indices)
    pub node_order: Vec<usize>,
    pub g: G2,
    pub case: String,
    pub weighted: bool,
}

fn digits(mut idx: u64, base: u64, len: usize) -> Vec<u8> {
    let mut d = vec![0u8; len];
    for k in 0..len {
        d[k] = (idx % base) as u8;
        idx /= base;
    }
    d
}

pub fn case_string(f: &Family, idx: u64, no: u8, eo: u8) -> String {
    format!("g:{}:{}:{}:{}:{}:{}", f.kind.idx(), f.n, f.walpha, idx, no, eo)
}

pub fn parse_case(case: &str) -> Option<(Family, u64, u8, u8, String)> {
    let (main, extra) = match case.find('|') {
        Some(i) => (&case[..i], case[i + 1..].to_string()),
        None => (case, String::new()),
    };
    let p: Vec<&str> = main.split(':').collect();
    if !(p.len() == 7 || (p.len() == 8 && (p[7].starts_with('P') || p[7].starts_with('H')))) || p[0] != "g" {
        return None;
    }
    let wa: &'static str = ["u", "w1", "w12", "w123", "w01", "w012", "wf", "wneg", "wtiny", "whuge", "winf", "wmax", "wf2", "w12inf", "ksrc", "ksrc2", "kdst", "ksum", "wf32", "wlev", "wf71", "wspan"].iter().find(|x| **x == p[3]).copied()?;
    let f = Family { kind: Kind::from_idx(p[1].parse().ok()?), n: p[2].parse().ok()?, walpha: wa, orders: vec![], min_edges: 0, max_edges: usize::MAX, primed: p.len() == 8 && p[7].starts_with('P'), histories: p.len() == 8 && p[7].starts_with('H') };
    Some((f, p[4].parse().ok()?, p[5].parse().ok()?, p[6].parse().ok()?, extra))
}

/// primer index of a primed case ("g:...:P<k>")
pub fn case_primer(case: &str) -> Option<usize> {
    let main = case.split('|').next().unwrap_or("");
    let p: Vec<&str> = main.split(':').collect();
    if p.len() == 8 {
        p[7].strip_prefix('P').or(p[7].strip_prefix('H')).and_then(|x| x.parse().ok())
    } else {
        None
    }
}

/// weight of the edge u -> v under a node-keyed scheme: every node's out-edges (ksrc, ksrc2) or in-edges (kdst)
/// share one weight while different nodes use different weights; ksum mixes both ends
pub fn scheme_weight(walpha: &str, u: usize, v: usize) -> Option<f64> {
    match walpha {
        "ksrc" => Some(1.0 + (u % 2) as f64),
        "ksrc2" => Some(1.0 + ((u / 2) % 2) as f64 * 4.0),
        "kdst" => Some(1.0 + (v % 2) as f64),
        "ksum" => Some(1.0 + ((u + 2 * v) % 3) as f64),
        _ => None,
    }
}

/// number of edges of slot assignment `idx` without building the graph
pub fn edge_count_of(f: &Family, idx: u64) -> usize {
    let vals = f.slot_values();
    let d = digits(idx, vals.len() as u64, f.slots().len());
    d.iter().map(|&k| vals[k as usize].len()).sum()
}

pub fn build(f: &Family, idx: u64, no: u8, eo: u8) -> Built {
    let slots = f.slots();
    let vals = f.slot_values();
    let d = digits(idx, vals.len() as u64, slots.len());
    let names: Vec<N> = NAMES8[..f.n].to_vec();
    let mut edges: Vec<(usize, usize, f64)> = vec![];
    for (k, &(u, v)) in slots.iter().enumerate() {
        for &w in &vals[d[k] as usize] {
            edges.push((u, v, scheme_weight(f.walpha, u, v).unwrap_or(w)));
        }
    }
    if eo == 1 {
        edges.reverse();
        if !f.kind.directed {
            for e in edges.iter_mut() {
                *e = (e.1, e.0, e.2);
            }
        }
    }
    let mut node_order: Vec<usize> = match no % 10 {
        0 => (0..f.n).collect(),
        1 => (0..f.n).rev().collect(),
        _ => (0..f.n).map(|i| (i + 1) % f.n.max(1)).collect(),
    };
    // construction route (no / 10): the same abstract graph reached through different API histories
    let route = no / 10;
    let mk_edge = |&(u, v, w): &(usize, usize, f64)| std::sync::Arc::new(Edge { u: names[u], v: names[v], weight: w, attributes: None });
    let plain = |order: &[usize]| {
        let mut g = G2::new(f.kind.specs());
        for &i in order {
            g.add_node(Node::from_name(names[i]));
        }
        for e in &edges {
            g.add_edge(mk_edge(e)).expect("E2 build: add_edge failed");
        }
        g
    };
    let g = match route {
        0 => plain(&node_order),
        1 => {
            // edges first (nodes created on first mention), then every node added again
            let mut specs = f.kind.specs();
            specs.missing_node_strategy = MissingNodeStrategy::Create;
            let mut g = G2::new(specs);
            for e in &edges {
                g.add_edge(mk_edge(e)).expect("E2 build (route 1): add_edge failed");
            }
            for &i in &node_order {
                g.add_node(Node::from_name(names[i]));
            }
            g
        }
        2 => {
            // the result of other API calls: reverse of the reverse / the subgraph on all nodes
            let g0 = plain(&node_order);
            if f.kind.directed {
                g0.reverse().expect("reverse").reverse().expect("reverse")
            } else {
                let mut all: Vec<N> = names.clone();
                all.reverse();
                g0.get_subgraph(&all)
            }
        }
        3 => {
            let nodes = node_order.iter().map(|&i| Node::from_name(names[i])).collect();
            G2::new_from_nodes_and_edges(nodes, edges.iter().map(mk_edge).collect(), f.kind.specs()).expect("E2 build (route 3): new_from_nodes_and_edges failed")
        }
        7 => {
            // a PROPER subgraph of a larger graph that was traversed before: an extra node created first (so every
            // position shifts by one) with an edge into the graph; then get_subgraph on the graph's own names
            let mut g0 = G2::new(f.kind.specs());
            g0.add_node(Node::from_name("zy"));
            for &i in &node_order {
                g0.add_node(Node::from_name(names[i]));
            }
            for e in &edges {
                g0.add_edge(mk_edge(e)).expect("E2 build (route 7): add_edge failed");
            }
            if f.n > 0 {
                let w = if f.walpha == "u" { f64::NAN } else { 1.0 };
                g0.add_edge(std::sync::Arc::new(Edge { u: "zy", v: names[node_order[0]], weight: w, attributes: None })).expect("E2 build (route 7): extra edge");
            }
            let _ = g0.breadth_first_search(&"zy");
            for nm in &names {
                let _ = g0.breadth_first_search(nm);
                let _ = g0.get_neighbor_nodes(*nm);
            }
            g0.get_subgraph(&names)
        }
        5 | 6 => {
            // other policy options under which the same calls give the same graph (no duplicate is ever
            // offered to a single-edge graph; parallel edges are kept whatever the duplicate policy)
            let mut specs = f.kind.specs();
            specs.edge_dedupe_strategy = if route == 5 { EdgeDedupeStrategy::KeepLast } else { EdgeDedupeStrategy::KeepFirst };
            specs.missing_node_strategy = MissingNodeStrategy::Create;
            specs.self_loops_false_strategy = SelfLoopsFalseStrategy::Drop;
            let mut g = G2::new(specs);
            for &i in &node_order {
                g.add_node(Node::from_name(names[i]));
            }
            for e in &edges {
                g.add_edge(mk_edge(e)).expect("E2 build (route 5/6): add_edge failed");
            }
            g
        }
        _ => {
            // equal edges are one shared Arc (edge objects handed out by one graph may be added to another)
            let mut cache: std::collections::HashMap<(usize, usize, u64), std::sync::Arc<Edge<N, ()>>> = std::collections::HashMap::new();
            let mut g = G2::new(f.kind.specs());
            for &i in &node_order {
                g.add_node(Node::from_name(names[i]));
            }
            for e in &edges {
                let a = cache.entry((e.0, e.1, e.2.to_bits())).or_insert_with(|| mk_edge(e)).clone();
                g.add_edge(a).expect("E2 build (route 4): add_edge failed");
            }
            g
        }
    };
    if route != 0 {
        node_order = g.get_all_nodes().iter().map(|nd| names.iter().position(|x| *x == nd.name).expect("node name")).collect();
    }
    Built { kind: f.kind, n: f.n, names, edges, node_order, g, case: case_string(f, idx, no, eo), weighted: f.walpha != "u" }
}

pub const ROUTE_LABELS: [&str; 8] = [
    "nodes added, then edges",
    "edges added first under MissingNodeStrategy::Create, then every node added again",
    "result of reverse().reverse() (directed) / get_subgraph(all nodes) (undirected)",
    "new_from_nodes_and_edges",
    "nodes added, then edges, equal parallel edges being one shared Arc",
    "nodes added, then edges, specs with KeepLast / Create / Drop policies",
    "nodes added, then edges, specs with KeepFirst / Create / Drop policies",
    "get_subgraph(own nodes) of a larger graph (one extra first node) that was traversed before",
];
/// order variants covering every construction route
pub const ORD_ROUTES: [(u8, u8); 7] = [(12, 1), (22, 0), (32, 1), (42, 1), (52, 0), (62, 1), (72, 0)];

impl Built {
    pub fn describe(&self) -> String {
        let pre = match CURRENT_PRIMER.with(|c| c.get()) {
            Some(k) => format!("[on a thread whose previous library call was primer {k}: {}] ", PRIMER_LABELS[k]),
            None => String::new(),
        };
        let pre = match CURRENT_MUTATION.with(|c| c.get()) {
            Some(k) => format!("{pre}[the graph below was first built WITHOUT the last step, queried by this same check, and then mutated in place by: {}] ", MUTATION_LABELS[k]),
            None => pre,
        };
        let pre = match CONTEXT_NOTE.with(|c| c.borrow().clone()) {
            Some(n) => format!("{pre}[{n}] "),
            None => pre,
        };
        let route = self.case.split(':').nth(5).and_then(|x| x.parse::<usize>().ok()).map(|no| no / 10).unwrap_or(0);
        let pre = if self.case.starts_with("g:") && route > 0 && route < ROUTE_LABELS.len() { format!("{pre}[built by route {route}: {}] ", ROUTE_LABELS[route]) } else { pre };
        format!(
            "{pre}{} graph, nodes in order {:?}, edges inserted {:?}",
            if self.kind.directed { "directed" } else { "undirected" }.to_string() + if self.kind.multi { " multi" } else { "" } + if self.kind.loops { " (loops allowed)" } else { "" },
            self.node_order.iter().map(|&i| self.names[i]).collect::<Vec<_>>(),
            self.edges.iter().map(|&(u, v, w)| if w.is_nan() { format!("{}-{}", self.names[u], self.names[v]) } else { format!("{}-{}:{}", self.names[u], self.names[v], w) }).collect::<Vec<_>>()
        )
    }
    pub fn snippet(&self, tail: &str) -> String {
        let mut s = String::from("use graphrs::*; use std::sync::Arc;\n#[test]\nfn replay() {\n");
        s.push_str(&format!(
            "    let mut g: Graph<&str, ()> = Graph::new(GraphSpecs {{ directed: {}, multi_edges: {}, self_loops: {}, ..GraphSpecs::directed() }});\n",
            self.kind.directed, self.kind.multi, self.kind.loops
        ));
        for &i in &self.node_order {
            s.push_str(&format!("    g.add_node(Node::from_name({:?}));\n", self.names[i]));
        }
        for &(u, v, w) in &self.edges {
            if w.is_nan() {
                s.push_str(&format!("    g.add_edge(Edge::new({:?}, {:?})).unwrap();\n", self.names[u], self.names[v]));
            } else {
                s.push_str(&format!("    g.add_edge(Edge::with_weight({:?}, {:?}, {:?})).unwrap();\n", self.names[u], self.names[v], w));
            }
        }
        s.push_str(tail);
        s.push_str("}\n");
        s
    }
    pub fn tags(&self) -> Vec<String> {
        let mut t = vec![if self.kind.directed { "directed".to_string() } else { "undirected".to_string() }];
        if self.kind.multi {
            t.push("multi_edges".into());
        }
        if self.edges.iter().any(|e| e.0 == e.1) {
            t.push("has_self_loop".into());
        }
        if self.edges.is_empty() {
            t.push("no_edges".into());
        }
        if self.n == 0 {
            t.push("empty_graph".into());
        }
        let mut deg = vec![0usize; self.n];
        for e in &self.edges {
            if e.0 != e.1 {
                deg[e.0] += 1;
                deg[e.1] += 1;
            }
        }
        if deg.iter().any(|&d| d == 0) {
            t.push("has_isolated_node".into());
        }
        t
    }
}

pub const CHUNK: u64 = 32;
/// graphs per fresh thread: 32 for big families; small families and the multiplied ones (primed, histories)
/// use smaller chunks so that all cores take part (a function of the family only, so replay finds its chunk)
pub fn chunk_of(fam: &Family) -> u64 {
    if fam.primed || fam.histories {
        return 1;
    }
    // several graphs share a thread in any case when there are several order / route variants per assignment
    let min = if fam.orders.len() >= 4 { 1 } else if fam.orders.len() >= 2 { 2 } else { 4 };
    (fam.count() / 48).clamp(min, CHUNK)
}

/// Re-runs the chunk containing `case` from its start on a fresh thread (same hash environment as
/// the original run); `f(built, is_target)` is called for every graph up to and including the target.
pub fn replay_chunk<F>(case: &str, orders: &[(u8, u8)], min_edges: usize, hash_seed: u64, f: F) -> bool
where
    F: Fn(&Built, bool) + Sync,
{
    replay_chunk_bounded(case, orders, min_edges, usize::MAX, hash_seed, f)
}

pub fn replay_chunk_bounded<F>(case: &str, orders: &[(u8, u8)], min_edges: usize, max_edges: usize, hash_seed: u64, f: F) -> bool
where
    F: Fn(&Built, bool) + Sync,
{
    let (fam, idx, no, eo, _) = match parse_case(case) {
        Some(x) => x,
        None => return false,
    };
    let mut fam = fam;
    fam.orders = orders.to_vec(); // the chunk size depends on the number of order variants
    let lo = idx - idx % chunk_of(&fam);
    let want_primer = case_primer(case);
    let r = on_fresh_thread_scoped(hash_seed, || {
        for i in lo..=idx {
            for &(n2, e2) in orders {
                let mut b = build(&fam, i, n2, e2);
                if b.edges.len() < min_edges || b.edges.len() > max_edges {
                    continue;
                }
                if fam.histories {
                    let base = b.case.clone();
                    for mk in 0..MUTATION_LABELS.len() {
                        let mut b2 = build(&fam, i, n2, e2);
                        f(&b2, false);
                        if apply_mutation(&mut b2, mk, &fam) {
                            CURRENT_MUTATION.with(|c| c.set(Some(mk)));
                            b2.case = format!("{base}:H{mk}");
                            let target = i == idx && n2 == no && e2 == eo && want_primer == Some(mk);
                            f(&b2, target);
                            CURRENT_MUTATION.with(|c| c.set(None));
                            if target {
                                return true;
                            }
                        }
                    }
                    continue;
                }
                if fam.primed {
                    let base = b.case.clone();
                    for pk in 0..PRIMER_LABELS.len() {
                        run_primer(pk);
                        CURRENT_PRIMER.with(|c| c.set(Some(pk)));
                        b.case = format!("{base}:P{pk}");
                        let target = i == idx && n2 == no && e2 == eo && want_primer == Some(pk);
                        f(&b, target);
                        CURRENT_PRIMER.with(|c| c.set(None));
                        if target {
                            return true;
                        }
                    }
                    continue;
                }
                let target = i == idx && n2 == no && e2 == eo;
                f(&b, target);
                if target {
                    return true;
                }
            }
        }
        false
    });
    matches!(r, Ok(true))
}

pub struct E2Stats {
    pub graphs: AtomicU64,
    pub calls: AtomicU64,
    pub capped: AtomicBool,
    pub counters: Mutex<Counters>,
    pub samples: Mutex<Vec<String>>,
    pub families: Mutex<Vec<serde_json::Value>>,
}
impl E2Stats {
    pub fn new() -> E2Stats {
        E2Stats { graphs: AtomicU64::new(0), calls: AtomicU64::new(0), capped: AtomicBool::new(false), counters: Mutex::new(Counters::default()), samples: Mutex::new(vec![]), families: Mutex::new(vec![]) }
    }
}

/// Runs `body` once per family. Small families (a few thousand graph checks at most) cannot keep all cores busy on
/// their own, so they run four at a time; the large ones follow one by one. Order of the evidence's family list
/// follows completion.
pub fn for_each_family<F: Fn(&Family) + Sync>(fams: &[Family], body: F) {
    let weight = |f: &Family| f.count() as u128 * f.orders.len().max(1) as u128 * if f.primed || f.histories { 12 } else { 1 };
    let small: Vec<&Family> = fams.iter().filter(|f| weight(f) < 6000).collect();
    let large: Vec<&Family> = fams.iter().filter(|f| weight(f) >= 6000).collect();
    par_for_w(small.len(), 4, |i| body(small[i]));
    for f in large {
        body(f);
    }
}

/// Runs `f(built, counters)` for every graph of the family (every slot assignment x every order
/// variant), in parallel, each graph on a fresh thread with hash seed `hash_seed`.
/// `f` returns the number of library calls it made.
pub fn for_each_graph<F>(fam: &Family, hash_seed: u64, deadline: Instant, stats: &E2Stats, f: F)
where
    F: Fn(&Built, &mut Counters) -> u64 + Sync,
{
    let total = fam.count();
    let chunk: u64 = chunk_of(fam);
    let nchunks = ((total + chunk - 1) / chunk) as usize;
    let done = AtomicU64::new(0);
    let t0 = Instant::now();
    let before_graphs = stats.graphs.load(Ordering::Relaxed);
    par_for(nchunks, |ci| {
        if stats.capped.load(Ordering::Relaxed) {
            return;
        }
        if Instant::now() > deadline {
            stats.capped.store(true, Ordering::Relaxed);
            return;
        }
        let lo = ci as u64 * chunk;
        let hi = (lo + chunk).min(total);
        if fam.max_edges != usize::MAX && (lo..hi).all(|i| edge_count_of(fam, i) > fam.max_edges) {
            done.fetch_add(hi - lo, Ordering::Relaxed);
            return; // nothing of this chunk is in the family: no thread needed
        }
        // one fresh thread (= one hash-key environment) per chunk; a case is replayed by
        // re-running its chunk from the start on a fresh thread with the same seed
        let r = on_fresh_thread_scoped(hash_seed, || {
            let mut c = Counters::default();
            let mut graphs = 0u64;
            let mut calls = 0u64;
            for idx in lo..hi {
                if fam.max_edges != usize::MAX && edge_count_of(fam, idx) > fam.max_edges {
                    continue;
                }
                if Instant::now() > deadline {
                    stats.capped.store(true, Ordering::Relaxed);
                    break;
                }
                for &(no, eo) in &fam.orders {
                    let mut b = build(fam, idx, no, eo);
                    if b.edges.len() < fam.min_edges {
                        continue;
                    }
                    if fam.primed {
                        let base = b.case.clone();
                        for pk in 0..PRIMER_LABELS.len() {
                            run_primer(pk);
                            CURRENT_PRIMER.with(|c| c.set(Some(pk)));
                            b.case = format!("{base}:P{pk}");
                            calls += f(&b, &mut c);
                            CURRENT_PRIMER.with(|c| c.set(None));
                            c.inc("graph_checks_after_primer_call");
                        }
                        graphs += 1;
                        continue;
                    }
                    if fam.histories {
                        let base = b.case.clone();
                        for mk in 0..MUTATION_LABELS.len() {
                            let mut b2 = build(fam, idx, no, eo);
                            // the queries on the object before the mutation (their verdicts are part of the run)
                            calls += f(&b2, &mut c);
                            if apply_mutation(&mut b2, mk, fam) {
                                CURRENT_MUTATION.with(|c| c.set(Some(mk)));
                                b2.case = format!("{base}:H{mk}");
                                calls += f(&b2, &mut c);
                                CURRENT_MUTATION.with(|c| c.set(None));
                                c.inc("graph_checks_after_query_then_mutation");
                            }
                        }
                        graphs += 1;
                        continue;
                    }
                    calls += f(&b, &mut c);
                    graphs += 1;
                }
            }
            (graphs, calls, c)
        });
        match r {
            Ok((graphs, calls, c)) => {
                stats.graphs.fetch_add(graphs, Ordering::Relaxed);
                stats.calls.fetch_add(calls, Ordering::Relaxed);
                stats.counters.lock().unwrap().merge(&c);
            }
            Err(pi) => {
                // the harness closure itself panicked outside a guarded library call: machinery failure
                eprintln!("MACHINERY-ERROR: harness panic in chunk {lo}..{hi} of {}: {} at {}:{}", fam.label(), pi.msg, pi.file, pi.line);
                std::process::exit(2);
            }
        }
        done.fetch_add(hi - lo, Ordering::Relaxed);
    });
    let completed = done.load(Ordering::Relaxed);
    {
        let mut s = stats.samples.lock().unwrap();
        if s.len() < 8 && total > 0 {
            let idx = total / 2 + 1;
            let (no, eo) = fam.orders[fam.orders.len() / 2];
            if idx < total {
                s.push(case_string(fam, idx, no, eo));
            }
        }
    }
    stats.families.lock().unwrap().push(serde_json::json!({
        "family": fam.label(), "slot_assignments": total, "order_variants": fam.orders.len(),
        "completed_assignments": completed, "graphs": stats.graphs.load(Ordering::Relaxed) - before_graphs,
        "complete": completed == total, "wall_s": (t0.elapsed().as_secs_f64() * 100.0).round() / 100.0
    }));
}

pub fn fill_e2_coverage(out: &mut RunOutput, stats: &E2Stats) {
    out.set("states", stats.graphs.load(Ordering::Relaxed));
    out.set("transitions", stats.calls.load(Ordering::Relaxed));
    out.set("evaluations", stats.calls.load(Ordering::Relaxed));
    out.set("exhaustive", !stats.capped.load(Ordering::Relaxed));
    out.set("families", serde_json::Value::Array(stats.families.lock().unwrap().clone()));
    for (k, v) in &stats.counters.lock().unwrap().0 {
        out.add(k, *v);
    }
    for s in stats.samples.lock().unwrap().iter() {
        if let Some((f, idx, no, eo, _)) = parse_case(s) {
            let b = build(&f, idx, no, eo);
            out.sample(serde_json::json!({"case": s, "graph": b.describe()}));
        }
    }
    if stats.capped.load(Ordering::Relaxed) {
        out.set("cap_note", "the wall-clock cap was reached; families marked complete=false were only partly enumerated");
    }
}
