//! C11 — clustering, triangle and transitivity values equal their definitions.
use crate::c04::*;
use crate::common::*;
use crate::e2::*;
use crate::oracle::close;
use graphrs::algorithms::cluster;
use std::collections::{BTreeMap, HashMap};
use std::time::{Duration, Instant};

/// loop-free simple view: a[u][v] = Some(weight) of edge u->v (symmetric if undirected)
struct Adj {
    n: usize,
    directed: bool,
    a: Vec<Vec<Option<f64>>>,
    max_w: f64,
    /// a self-loop carries the strictly largest weight (normalisation convention ambiguous)
    loop_is_strict_max: bool,
}

fn adj_of(b: &Built) -> Adj {
    let mut a = vec![vec![None; b.n]; b.n];
    let mut max_all = f64::NEG_INFINITY;
    let mut max_nonloop = f64::NEG_INFINITY;
    for &(u, v, w) in &b.edges {
        let ww = if w.is_nan() { 1.0 } else { w };
        max_all = max_all.max(ww);
        if u != v {
            max_nonloop = max_nonloop.max(ww);
            a[u][v] = Some(ww);
            if !b.kind.directed {
                a[v][u] = Some(ww);
            }
        }
    }
    if b.edges.is_empty() {
        max_all = 1.0;
    }
    Adj { n: b.n, directed: b.kind.directed, a, max_w: max_all, loop_is_strict_max: max_all > max_nonloop && max_nonloop > f64::NEG_INFINITY }
}

impl Adj {
    fn nbrs(&self, v: usize) -> Vec<usize> {
        (0..self.n).filter(|&j| self.a[v][j].is_some() || self.a[j][v].is_some()).collect()
    }
    /// (M^3)_vv for M = f(a) + f(a)^T (directed) or f(a) (undirected)
    fn cube_diag(&self, v: usize, f: &dyn Fn(f64) -> f64) -> f64 {
        let n = self.n;
        let m = |i: usize, j: usize| -> f64 {
            if i == j {
                return 0.0;
            }
            let x = self.a[i][j].map(f).unwrap_or(0.0);
            if self.directed {
                x + self.a[j][i].map(f).unwrap_or(0.0)
            } else {
                x
            }
        };
        let mut t = 0.0;
        for j in 0..n {
            for k in 0..n {
                t += m(v, j) * m(j, k) * m(k, v);
            }
        }
        t
    }
    fn clustering(&self, v: usize, weighted: bool) -> f64 {
        let mw = self.max_w;
        let unit = |_w: f64| 1.0;
        let cbrt = move |w: f64| (w / mw).cbrt();
        let f: &dyn Fn(f64) -> f64 = if weighted { &cbrt } else { &unit };
        let t = self.cube_diag(v, f);
        if self.directed {
            let dt: usize = (0..self.n).filter(|&j| self.a[v][j].is_some()).count() + (0..self.n).filter(|&j| self.a[j][v].is_some()).count();
            let db = (0..self.n).filter(|&j| self.a[v][j].is_some() && self.a[j][v].is_some()).count();
            let den = 2.0 * (dt as f64 * (dt as f64 - 1.0) - 2.0 * db as f64);
            if t == 0.0 || den == 0.0 {
                0.0
            } else {
                t / den
            }
        } else {
            let d = self.nbrs(v).len() as f64;
            let den = d * (d - 1.0);
            if t == 0.0 || den == 0.0 {
                0.0
            } else {
                t / den
            }
        }
    }
    fn triangles(&self, v: usize) -> usize {
        let nb = self.nbrs(v);
        let mut t = 0;
        for (i, &j) in nb.iter().enumerate() {
            for &k in &nb[i + 1..] {
                if self.a[j][k].is_some() {
                    t += 1;
                }
            }
        }
        t
    }
    fn generalized_degree(&self, v: usize) -> BTreeMap<usize, usize> {
        let nb = self.nbrs(v);
        let mut h = BTreeMap::new();
        for &w in &nb {
            let cnt = nb.iter().filter(|&&k| k != w && self.a[w][k].is_some()).count();
            *h.entry(cnt).or_insert(0) += 1;
        }
        h
    }
    fn square(&self, v: usize) -> f64 {
        let nb = self.nbrs(v);
        let (mut sq, mut pot) = (0usize, 0usize);
        for (i, &u) in nb.iter().enumerate() {
            for &w in &nb[i + 1..] {
                let nu = self.nbrs(u);
                let nw = self.nbrs(w);
                let s = nu.iter().filter(|x| nw.contains(x) && **x != v).count();
                sq += s;
                let mut degm = s + 1;
                if nu.contains(&w) {
                    degm += 1;
                }
                pot += (nu.len() - degm) + (nw.len() - degm) + s;
            }
        }
        if pot > 0 {
            sq as f64 / pot as f64
        } else {
            0.0
        }
    }
}

fn kind_of<T>(r: &Result<T, graphrs::Error>) -> String {
    match r {
        Ok(_) => "Ok".into(),
        Err(e) => format!("{:?}", e.kind),
    }
}

pub fn check_cluster(b: &Built, rec: &Recorder, c: &mut Counters) -> u64 {
    let mut calls = 0u64;
    let adj = adj_of(b);
    let n = b.n;
    let weighted_modes: Vec<bool> = if b.weighted { vec![true, false] } else { vec![false] };
    // every non-empty subset, plus None
    let mut subsets: Vec<Option<Vec<usize>>> = vec![None];
    for mask in 1..(1usize << n) {
        subsets.push(Some((0..n).filter(|i| mask >> i & 1 == 1).collect()));
    }
    let mk = |clause: &str, call: &str, sub: String, detail: String, extra: Vec<String>| {
        let mut t = b.tags();
        t.extend(extra);
        Violation::new(clause, call, format!("{}|{sub}", b.case), format!("{}\n{detail}", b.describe())).with_tags(t).with_snippet(b.snippet(&format!("    // {call}: {}\n", detail.replace('\n', " "))))
    };
    // name LISTS with repeats: the per-node maps must be those of the set; the average must be the mean over the
    // distinct names or over the list with multiplicity (both readings of "the counted coefficients" are accepted)
    if n >= 1 && !b.kind.multi && b.edges.len() <= 3 {
        for i in 0..n {
            for j in [i, (i + 1) % n] {
                let list: Vec<N> = vec![b.names[i], b.names[j], b.names[i]];
                let mut set = list.clone();
                set.sort();
                set.dedup();
                for &weighted in &weighted_modes {
                    calls += 1;
                    let (rl, rs) = (guarded(|| cluster::clustering(&b.g, weighted, Some(&list))), guarded(|| cluster::clustering(&b.g, weighted, Some(&set))));
                    let (ml, ms) = match (rl, rs) {
                        (Ok(Ok(a)), Ok(Ok(z))) => (a, z),
                        (Ok(Err(a)), Ok(Err(z))) if format!("{:?}", a.kind) == format!("{:?}", z.kind) => continue,
                        (Err(pi), _) | (_, Err(pi)) => {
                            rec.record(mk("no_panic", "cluster::clustering", format!("list:w={weighted}:{list:?}"), pi.msg.clone(), vec![]).with_panic(pi));
                            continue;
                        }
                        (a, z) => {
                            rec.record(mk("node_list_with_repeats", "cluster::clustering", format!("list:w={weighted}:{list:?}"), format!("clustering({list:?}) ok={} but clustering({set:?}) ok={}", matches!(a, Ok(Ok(_))), matches!(z, Ok(Ok(_)))), vec![]));
                            continue;
                        }
                    };
                    if ml.len() != ms.len() || ml.iter().any(|(k, v)| !ms.get(k).map_or(false, |w| close(*v, *w, 1e-12))) {
                        rec.record(mk("node_list_with_repeats", "cluster::clustering", format!("list:w={weighted}:{list:?}"), format!("clustering({list:?}) = {ml:?} but clustering({set:?}) = {ms:?}"), vec![]));
                    }
                    for count_zeros in [false, true] {
                        let vals_set: Vec<f64> = set.iter().filter_map(|k| ms.get(k).cloned()).filter(|x| count_zeros || x.abs() > 0.0).collect();
                        let vals_list: Vec<f64> = list.iter().filter_map(|k| ms.get(k).cloned()).filter(|x| count_zeros || x.abs() > 0.0).collect();
                        if vals_set.is_empty() {
                            continue;
                        }
                        let (e1, e2) = (vals_set.iter().sum::<f64>() / vals_set.len() as f64, vals_list.iter().sum::<f64>() / vals_list.len() as f64);
                        if let Ok(Ok(got)) = guarded(|| cluster::average_clustering(&b.g, weighted, Some(&list), count_zeros)) {
                            if !close(got, e1, 1e-9) && !close(got, e2, 1e-9) {
                                rec.record(mk("average_clustering", "cluster::average_clustering", format!("avglist:w={weighted}:cz={count_zeros}:{list:?}"), format!("average_clustering(weighted={weighted}, {list:?}, count_zeros={count_zeros}) = {got}; the mean over the distinct names is {e1}, over the list with repeats {e2}"), vec![]));
                            }
                        }
                    }
                }
            }
        }
    }
    for s in &subsets {
        let names: Option<Vec<N>> = s.as_ref().map(|v| v.iter().map(|i| b.names[*i]).collect());
        let sel: Vec<usize> = s.clone().unwrap_or_else(|| (0..n).collect());
        let subtag = || -> Vec<String> {
            let mut t = vec![];
            if let Some(v) = s {
                if v.len() < n {
                    t.push("proper_subset".into());
                    if v.iter().any(|&x| adj.nbrs(x).iter().any(|y| !v.contains(y))) {
                        t.push("proper_subset_with_outside_neighbour".into());
                    }
                }
            }
            t
        };
        let sn = format!("{:?}", names);
        // ---- clustering / average_clustering
        for &weighted in &weighted_modes {
            if weighted && adj.loop_is_strict_max {
                c.inc("skipped_loop_is_max_weight");
                continue;
            }
            calls += 1;
            let r = guarded(|| cluster::clustering(&b.g, weighted, names.as_deref()));
            let call = "cluster::clustering";
            let sub = format!("cl:w={weighted}:S={sn}");
            match r {
                Err(pi) => rec.record(mk("no_panic", call, sub.clone(), format!("clustering(weighted={weighted}, {sn}) panicked: {}", pi.msg), subtag()).with_panic(pi)),
                Ok(r) => {
                    if b.kind.multi {
                        if kind_of(&r) != "WrongMethod" {
                            rec.record(mk("kind_guard", call, sub.clone(), format!("multi-edge graph: expected WrongMethod, got {}", kind_of(&r)), subtag()));
                        }
                    } else {
                        match r {
                            Err(e) => rec.record(mk("unexpected_error", call, sub.clone(), format!("Err({:?})", e.kind), subtag())),
                            Ok(m) => {
                                let mut keys: Vec<usize> = m.keys().map(|k| idx_of(b, k)).collect();
                                keys.sort();
                                if keys != sel {
                                    rec.record(mk("subset_keys", call, sub.clone(), format!("clustering({sn}) has keys {:?}", m.keys().collect::<Vec<_>>()), subtag()));
                                }
                                let mut vals = vec![];
                                for (k, got) in &m {
                                    let v = idx_of(b, k);
                                    let exp = adj.clustering(v, weighted);
                                    vals.push(exp);
                                    if !close(*got, exp, 1e-9) {
                                        rec.record(mk("clustering_value", call, sub.clone(), format!("clustering(weighted={weighted}, {sn})[{k}] = {got}, definition gives {exp}"), subtag()));
                                    }
                                    if !(*got >= -1e-12 && *got <= 1.0 + 1e-9) {
                                        rec.record(mk("range", call, sub.clone(), format!("coefficient {got} of {k} outside [0,1]"), subtag()));
                                    }
                                    if exp > 0.0 {
                                        c.inc("nonzero_coefficients");
                                    }
                                }
                                for count_zeros in [false, true] {
                                    calls += 1;
                                    let counted: Vec<f64> = sel.iter().map(|&v| adj.clustering(v, weighted)).filter(|x| count_zeros || x.abs() > 0.0).collect();
                                    if counted.is_empty() {
                                        continue; // 0/0: not asserted
                                    }
                                    let exp = counted.iter().sum::<f64>() / counted.len() as f64;
                                    match guarded(|| cluster::average_clustering(&b.g, weighted, names.as_deref(), count_zeros)) {
                                        Ok(Ok(got)) if close(got, exp, 1e-9) => {}
                                        Ok(r) => rec.record(mk("average_clustering", "cluster::average_clustering", format!("avg:w={weighted}:cz={count_zeros}:S={sn}"), format!("average_clustering(weighted={weighted}, {sn}, count_zeros={count_zeros}) = {:?}, mean of the counted coefficients = {exp}", r.map_err(|e| e.kind)), subtag())),
                                        Err(pi) => rec.record(mk("no_panic", "cluster::average_clustering", format!("avg:w={weighted}:cz={count_zeros}:S={sn}"), pi.msg.clone(), subtag()).with_panic(pi)),
                                    }
                                }
                            }
                        }
                    }
                }
            }
        }
        // ---- undirected-only functions
        let expect_refusal = b.kind.directed || b.kind.multi;
        let refusal_tag = || {
            let mut t = subtag();
            if b.kind.multi && !b.kind.directed {
                t.push("undirected_multi_no_guard".into());
            }
            t
        };
        calls += 2;
        let r = guarded(|| cluster::triangles(&b.g, names.as_deref()));
        let sub = format!("tri:S={sn}");
        match r {
            Err(pi) => rec.record(mk("no_panic", "cluster::triangles", sub, format!("triangles({sn}) panicked: {}", pi.msg), refusal_tag()).with_panic(pi)),
            Ok(r) => {
                if expect_refusal {
                    if kind_of(&r) != "WrongMethod" {
                        rec.record(mk("kind_guard", "cluster::triangles", sub, format!("expected WrongMethod on this kind of graph, got {}", kind_of(&r)), refusal_tag()));
                    }
                } else {
                    match r {
                        Err(e) => rec.record(mk("unexpected_error", "cluster::triangles", sub, format!("Err({:?})", e.kind), subtag())),
                        Ok(m) => {
                            let exp: HashMap<N, usize> = sel.iter().map(|&v| (b.names[v], adj.triangles(v))).collect();
                            if m != exp {
                                rec.record(mk("triangles", "cluster::triangles", sub, format!("triangles({sn}) = {m:?}, expected {exp:?}"), subtag()));
                            }
                            if exp.values().any(|&t| t > 0) {
                                c.inc("graphs_subsets_with_triangles");
                            }
                        }
                    }
                }
            }
        }
        let r = guarded(|| cluster::generalized_degree(&b.g, names.as_deref()));
        let sub = format!("gd:S={sn}");
        match r {
            Err(pi) => rec.record(mk("no_panic", "cluster::generalized_degree", sub, format!("generalized_degree({sn}) panicked: {}", pi.msg), refusal_tag()).with_panic(pi)),
            Ok(r) => {
                if expect_refusal {
                    if kind_of(&r) != "WrongMethod" {
                        rec.record(mk("kind_guard", "cluster::generalized_degree", sub, format!("expected WrongMethod on this kind of graph, got {}", kind_of(&r)), refusal_tag()));
                    }
                } else {
                    match r {
                        Err(e) => rec.record(mk("unexpected_error", "cluster::generalized_degree", sub, format!("Err({:?})", e.kind), subtag())),
                        Ok(m) => {
                            let got: BTreeMap<usize, BTreeMap<usize, usize>> = m.iter().map(|(k, h)| (idx_of(b, k), h.iter().map(|(a, z)| (*a, *z)).collect())).collect();
                            let exp: BTreeMap<usize, BTreeMap<usize, usize>> = sel.iter().map(|&v| (v, adj.generalized_degree(v))).collect();
                            if got != exp {
                                rec.record(mk("generalized_degree", "cluster::generalized_degree", sub, format!("generalized_degree({sn}) = {got:?}, expected {exp:?}"), subtag()));
                            }
                        }
                    }
                }
            }
        }
        // ---- square clustering (undirected single-edge graphs only; no error channel)
        if !b.kind.directed && !b.kind.multi {
            calls += 1;
            let sub = format!("sq:S={sn}");
            let loops = b.edges.iter().any(|e| e.0 == e.1);
            let mut t = subtag();
            if loops {
                t.push("has_self_loop".into());
            }
            match guarded(|| cluster::square_clustering(&b.g, names.as_deref())) {
                Err(pi) => rec.record(mk("no_panic", "cluster::square_clustering", sub, format!("square_clustering({sn}) panicked: {}", pi.msg), t).with_panic(pi)),
                Ok(m) => {
                    let mut keys: Vec<usize> = m.keys().map(|k| idx_of(b, k)).collect();
                    keys.sort();
                    if keys != sel {
                        rec.record(mk("subset_keys", "cluster::square_clustering", sub.clone(), format!("square_clustering({sn}) has keys {:?}", m.keys().collect::<Vec<_>>()), t.clone()));
                    }
                    for (k, got) in &m {
                        let exp = adj.square(idx_of(b, k));
                        if !close(*got, exp, 1e-9) {
                            rec.record(mk("square_clustering", "cluster::square_clustering", sub.clone(), format!("square_clustering({sn})[{k}] = {got}, fraction of possible squares = {exp}"), t.clone()));
                        }
                        if exp > 0.0 {
                            c.inc("nonzero_square_coefficients");
                        }
                    }
                }
            }
        }
    }
    // ---- transitivity
    calls += 1;
    let r = guarded(|| cluster::transitivity(&b.g));
    let tri2: usize = (0..n).map(|v| 2 * adj.triangles(v)).sum();
    let triples: usize = (0..n).map(|v| {
        let d = adj.nbrs(v).len();
        d * d.saturating_sub(1)
    })
    .sum();
    let mut t = vec![];
    if (0..n).any(|v| adj.nbrs(v).is_empty()) {
        t.push("has_node_without_neighbours".to_string());
    }
    if b.kind.multi && !b.kind.directed {
        t.push("undirected_multi_no_guard".into());
    }
    let undefined = !b.kind.directed && !b.kind.multi && triples == 0;
    match r {
        Err(pi) => {
            if !undefined {
                rec.record(mk("no_panic", "cluster::transitivity", "trans".into(), format!("transitivity panicked: {}", pi.msg), t).with_panic(pi))
            } else {
                c.inc("transitivity_undefined_panics_left_to_C20");
            }
        }
        Ok(r) => {
            if b.kind.directed || b.kind.multi {
                if kind_of(&r) != "WrongMethod" {
                    rec.record(mk("kind_guard", "cluster::transitivity", "trans".into(), format!("expected WrongMethod on this kind of graph, got {}", kind_of(&r)), t));
                }
            } else if !undefined {
                let exp = tri2 as f64 / triples as f64;
                match r {
                    Ok(got) if close(got, exp, 1e-9) => {}
                    o => rec.record(mk("transitivity", "cluster::transitivity", "trans".into(), format!("transitivity = {:?}, 3 x triangles / connected triples = {exp}", o.map_err(|e| e.kind)), t)),
                }
            }
        }
    }
    calls
}

pub fn c11_families(tier: &str) -> Vec<Family> {
    let mut v = primed_small("w12", 3);
    v.extend(route_small("w12", true));
    v.extend(hist_small("w12", false));
    // the weighted coefficients are normalised by the largest weight: invariant under scaling all weights
    v.push(fam(US, 3, "wtiny", &ORD_ONE));
    v.push(fam(DS, 3, "wtiny", &ORD_ONE));
    v.push(fam(US, 4, "whuge", &ORD_ONE));
    v.push(fam(US, 4, "wspan", &ORD_ONE));
    v.push(fam(DS, 3, "wspan", &ORD_ONE));
    if tier == "quick" {
        for n in 0..=3 {
            for k in kinds_all() {
                if k.multi && n == 3 {
                    continue;
                }
                v.push(fam(k, n, "u", &ORD_ONE));
                if !k.multi {
                    v.push(fam(k, n, "w123", &ORD_ONE));
                }
            }
        }
        v.push(fam(US, 4, "u", &ORD_ONE));
        v.push(fam(US, 4, "w12", &ORD_ONE));
        v.push(fam(DS, 4, "u", &ORD_ONE));
        v.push(fam(USL, 4, "u", &ORD_ONE));
    } else {
        for n in 0..=3 {
            for k in kinds_all() {
                v.push(fam(k, n, "u", &ORD_TWO));
                if !k.multi {
                    v.push(fam(k, n, "w123", &ORD_TWO));
                }
            }
        }
        v.push(fam(US, 4, "u", &ORD_ALL));
        v.push(fam(USL, 4, "u", &ORD_TWO));
        v.push(fam(US, 4, "w123", &ORD_TWO));
        v.push(fam(USL, 4, "w12", &ORD_ONE));
        v.push(fam(US, 5, "u", &ORD_TWO));
        v.push(fam(US, 5, "w12", &ORD_ONE));
        v.push(fam(US, 6, "u", &ORD_ONE));
        v.push(fam(DS, 4, "u", &ORD_TWO));
        v.push(fam(DSL, 4, "u", &ORD_ONE));
        v.push(fam(DS, 4, "w12", &ORD_ONE));
    }
    v
}

pub fn run(tier: &str, rec: &Recorder) -> RunOutput {
    let start = Instant::now();
    let mut out = RunOutput::new("model_checking");
    let deadline = start + Duration::from_secs_f64(wall_cap_s(tier));
    let stats = E2Stats::new();
    let seed = std::env::var("VERIF_SEED").ok().and_then(|s| s.parse().ok()).unwrap_or(0);
    for_each_family(&c11_families(tier), |f| {
        for_each_graph(f, seed, deadline, &stats, |b, c| check_cluster(b, rec, c));
    });
    fill_e2_coverage(&mut out, &stats);
    out.set("traces_validated_against_impl", out.get("transitions"));
    out.set("distinct_nontrivial", out.get("nonzero_coefficients"));
    out.set("rule", "every labelled single-edge graph of each family (undirected n<=5/6, directed n<=4, with every self-loop placement at n<=4, weights {1,2,3}/{1,2}) x every non-empty node subset and None; clustering (4 variants), average_clustering (count_zeros both ways), triangles, transitivity, generalized_degree, square_clustering compared with definition-level oracles on the loop-free simple graph (matrix-cube form of Fagiolo/Onnela); multi-edge and directed graphs for the kind guards. distinct_nontrivial = (node, subset, mode) evaluations with a non-zero coefficient");
    for k in ["nonzero_coefficients", "graphs_subsets_with_triangles", "nonzero_square_coefficients"] {
        out.require_nonzero(k);
    }
    out.assumptions = vec![
        "tolerance 1e-9 relative (the repository's own weighted tests differ from their literals by one ulp)".into(),
        "weighted graphs in which a self-loop carries the strictly largest weight are skipped for the weighted coefficients (whether a loop's weight takes part in the normalisation is not fixed by the statement)".into(),
        "average_clustering with nothing counted (0/0) and transitivity without connected triples (0/0) are not asserted".into(),
    ];
    out
}

pub fn replay(case: &str, rec: &Recorder) -> bool {
    let (f, _, _, _, _) = match parse_case(case) {
        Some(x) => x,
        None => return false,
    };
    let seed = std::env::var("VERIF_SEED").ok().and_then(|s| s.parse().ok()).unwrap_or(0);
    let mut lists: Vec<Vec<(u8, u8)>> = vec![];
    for tier in ["quick", "thorough"] {
        for pf in c11_families(tier) {
            if pf.kind == f.kind && pf.n == f.n && pf.walpha == f.walpha && !lists.contains(&pf.orders) {
                lists.push(pf.orders.clone());
            }
        }
    }
    let dummy = Recorder::new("C11", &[]);
    for orders in lists {
        for round in 0..2 {
            replay_chunk(case, &orders, 0, seed, |b, target| {
                let mut c = Counters::default();
                if target {
                    println!("round {round}: {}", b.describe());
                }
                check_cluster(b, if target { rec } else { &dummy }, &mut c);
            });
        }
        if rec.has_any() {
            return true;
        }
    }
    rec.has_any()
}
