//! Brute-force, definition-level oracles on small graphs (independent of the library's algorithms).
#![allow(dead_code)]

use crate::e2::Built;

#[derive(Clone)]
pub struct Simple {
    pub n: usize,
    pub directed: bool,
    /// cost[u][v] = cheapest edge u->v (u-v), None if absent; hop mode = 1.0
    pub cost: Vec<Vec<Option<f64>>>,
}

impl Simple {
    pub fn of(b: &Built, weighted: bool) -> Simple {
        let mut cost = vec![vec![None; b.n]; b.n];
        for &(u, v, w) in &b.edges {
            let c = if weighted { w } else { 1.0 };
            let mut put = |a: usize, z: usize| {
                let e: &mut Option<f64> = &mut cost[a][z];
                *e = Some(match *e {
                    None => c,
                    Some(o) => o.min(c),
                });
            };
            put(u, v);
            if !b.kind.directed {
                put(v, u);
            }
        }
        Simple { n: b.n, directed: b.kind.directed, cost }
    }
    pub fn succ(&self, u: usize) -> Vec<usize> {
        (0..self.n).filter(|&v| self.cost[u][v].is_some()).collect()
    }
    pub fn pred(&self, u: usize) -> Vec<usize> {
        (0..self.n).filter(|&v| self.cost[v][u].is_some()).collect()
    }
    /// for every target: (shortest length, all simple paths of that length), by exhaustive DFS
    pub fn all_shortest(&self, src: usize) -> Vec<Option<(f64, Vec<Vec<usize>>)>> {
        let mut best: Vec<Option<(f64, Vec<Vec<usize>>)>> = vec![None; self.n];
        let mut path = vec![src];
        let mut on = vec![false; self.n];
        on[src] = true;
        self.dfs(src, 0.0, &mut path, &mut on, &mut best);
        best
    }
    fn dfs(&self, u: usize, len: f64, path: &mut Vec<usize>, on: &mut Vec<bool>, best: &mut Vec<Option<(f64, Vec<Vec<usize>>)>>) {
        match &mut best[u] {
            None => best[u] = Some((len, vec![path.clone()])),
            Some((l, ps)) => {
                if len < *l {
                    *l = len;
                    *ps = vec![path.clone()];
                } else if len == *l {
                    ps.push(path.clone());
                }
            }
        }
        for v in 0..self.n {
            if on[v] {
                continue;
            }
            if let Some(c) = self.cost[u][v] {
                on[v] = true;
                path.push(v);
                self.dfs(v, len + c, path, on, best);
                path.pop();
                on[v] = false;
            }
        }
    }
    /// Floyd-Warshall distances (None = unreachable); d[u][u] = 0
    pub fn dist(&self) -> Vec<Vec<Option<f64>>> {
        let n = self.n;
        let mut d: Vec<Vec<Option<f64>>> = vec![vec![None; n]; n];
        for u in 0..n {
            for v in 0..n {
                d[u][v] = self.cost[u][v];
            }
            d[u][u] = Some(0.0);
        }
        for k in 0..n {
            for i in 0..n {
                for j in 0..n {
                    if let (Some(a), Some(b)) = (d[i][k], d[k][j]) {
                        if d[i][j].map_or(true, |c| a + b < c) {
                            d[i][j] = Some(a + b);
                        }
                    }
                }
            }
        }
        d
    }
    pub fn reach(&self) -> Vec<Vec<bool>> {
        let d = self.dist();
        d.iter().map(|r| r.iter().map(|x| x.is_some()).collect()).collect()
    }
    pub fn path_len(&self, p: &[usize]) -> Option<f64> {
        let mut l = 0.0;
        for w in p.windows(2) {
            l += self.cost[w[0]][w[1]]?;
        }
        Some(l)
    }
}

/// exact rational helper (i128) for definition-level sums
#[derive(Clone, Copy, Debug)]
pub struct Q(pub i128, pub i128);
fn gcd(a: i128, b: i128) -> i128 {
    if b == 0 {
        a.abs()
    } else {
        gcd(b, a % b)
    }
}
impl Q {
    pub fn new(n: i128, d: i128) -> Q {
        let g = gcd(n, d).max(1);
        let s = if d < 0 { -1 } else { 1 };
        Q(s * n / g, s * d / g)
    }
    pub fn zero() -> Q {
        Q(0, 1)
    }
    pub fn add(self, o: Q) -> Q {
        Q::new(self.0 * o.1 + o.0 * self.1, self.1 * o.1)
    }
    pub fn mul(self, o: Q) -> Q {
        Q::new(self.0 * o.0, self.1 * o.1)
    }
    pub fn f(self) -> f64 {
        self.0 as f64 / self.1 as f64
    }
}

pub fn close(a: f64, b: f64, rel: f64) -> bool {
    if a.is_nan() || b.is_nan() {
        return a.is_nan() && b.is_nan();
    }
    (a - b).abs() <= rel * a.abs().max(b.abs()).max(1.0)
}
