//! C04 — Dijkstra returns exactly the shortest distances and shortest paths.
use crate::common::*;
use crate::e2::*;
use crate::oracle::*;
use graphrs::algorithms::shortest_path::{dijkstra, ShortestPathInfo};
use std::collections::{BTreeMap, HashMap};
use std::time::{Duration, Instant};

pub type Sssp = BTreeMap<usize, (f64, Vec<Vec<usize>>)>;

pub fn idx_of(b: &Built, name: N) -> usize {
    b.names.iter().position(|x| *x == name).expect("unknown name in result")
}

/// canonical form of a single-source result over name indices (paths sorted)
pub fn canon_sssp(b: &Built, m: &HashMap<N, ShortestPathInfo<N>>) -> Sssp {
    m.iter()
        .map(|(k, v)| {
            let mut ps: Vec<Vec<usize>> = v.paths.iter().map(|p| p.iter().map(|x| idx_of(b, x)).collect()).collect();
            ps.sort();
            (idx_of(b, k), (v.distance, ps))
        })
        .collect()
}

pub fn fmt_sssp(b: &Built, s: &Sssp) -> String {
    s.iter().map(|(k, (d, ps))| format!("{}:{}{:?}", b.names[*k], d, ps.iter().map(|p| p.iter().map(|i| b.names[*i]).collect::<String>()).collect::<Vec<_>>())).collect::<Vec<_>>().join(" ")
}

fn check_against_oracle(b: &Built, sim: &Simple, src: usize, res: &Sssp, first_only: bool, positive: bool, fail: &mut dyn FnMut(&str, String)) {
    let best = sim.all_shortest(src);
    for t in 0..b.n {
        match (&best[t], res.get(&t)) {
            (None, None) => {}
            (None, Some(_)) => fail("reported_unreachable", format!("target {} is reported but is not reachable from {}", b.names[t], b.names[src])),
            (Some(_), None) => fail("missing_reachable", format!("target {} is reachable from {} but not reported", b.names[t], b.names[src])),
            (Some((d, sp)), Some((gd, gps))) => {
                if gd != d {
                    fail("distance", format!("distance {} -> {} = {gd}, true shortest length {d}", b.names[src], b.names[t]));
                }
                for p in gps {
                    let ok = p.first() == Some(&src) && p.last() == Some(&t);
                    match sim.path_len(p) {
                        Some(l) if ok && l == *gd => {}
                        Some(l) => fail("path_invalid", format!("path {:?} to {} has length {l}, reported distance {gd}{}", p.iter().map(|i| b.names[*i]).collect::<Vec<_>>(), b.names[t], if ok { "" } else { " (wrong endpoints)" })),
                        None => fail("path_invalid", format!("path {:?} uses a non-existent edge", p.iter().map(|i| b.names[*i]).collect::<Vec<_>>())),
                    }
                }
                if positive {
                    let mut exp = sp.clone();
                    exp.sort();
                    if !first_only {
                        if *gps != exp {
                            fail("path_set", format!("paths {} -> {}: got {:?}, all shortest paths are {:?}", b.names[src], b.names[t], gps, exp));
                        }
                    } else if gps.len() != 1 || !exp.contains(&gps[0]) {
                        fail("first_only", format!("first_only paths {} -> {}: got {:?}, expected exactly one of {:?}", b.names[src], b.names[t], gps, exp));
                    }
                } else if first_only && gps.len() != 1 {
                    fail("first_only", format!("first_only returned {} paths for {}", gps.len(), b.names[t]));
                }
            }
        }
    }
}

/// distance-only form (no paths, no target, no cutoff: the fast path) against the form that returns paths
pub fn check_distance_only(b: &Built, rec: &Recorder, c: &mut Counters) -> u64 {
    let mut calls = 0;
    for src in 0..b.n {
        calls += 2;
        let full = guarded(|| dijkstra::single_source(&b.g, true, b.names[src], None, None, false, true));
        let fast = guarded(|| dijkstra::single_source(&b.g, true, b.names[src], None, None, false, false));
        let sub = format!("{}|ssd:w=true:src={}", b.case, b.names[src]);
        let mk = |clause: &str, detail: String| Violation::new(clause, "dijkstra::single_source", sub.clone(), format!("{}\nweighted=true source={} with_paths=false first_only=false\n{detail}", b.describe(), b.names[src])).with_tags(b.tags()).with_snippet(b.snippet(&format!("    let r = graphrs::algorithms::shortest_path::dijkstra::single_source(&g, true, {:?}, None, None, false, false).unwrap();\n    // {}\n", b.names[src], detail.replace('\n', " "))));
        match (full, fast) {
            (Ok(Ok(a)), Ok(Ok(z))) => {
                let (a, z) = (canon_sssp(b, &a), canon_sssp(b, &z));
                c.inc("distance_only_comparisons");
                if a.len() != z.len() || a.iter().any(|(k, v)| z.get(k).map_or(true, |w| w.0 != v.0)) {
                    rec.record(mk("distance", format!("distance-only call: {}; call with paths: {}", fmt_sssp(b, &z), fmt_sssp(b, &a))));
                }
            }
            (Err(pi), _) | (_, Err(pi)) => rec.record(mk("no_panic", pi.msg.clone()).with_panic(pi)),
            (a, z) => rec.record(mk("unexpected_error", format!("with paths ok={}, distance-only ok={}", matches!(a, Ok(Ok(_))), matches!(z, Ok(Ok(_)))))),
        }
    }
    calls
}

pub fn check_graph(b: &Built, rec: &Recorder, c: &mut Counters, weighted_modes: &[bool], multi_source_subsets: bool) -> u64 {
    let mut calls = 0u64;
    for &weighted in weighted_modes {
        let sim = Simple::of(b, weighted);
        let positive = !weighted || b.edges.iter().all(|e| e.2 > 0.0);
        let mut per_source: Vec<Option<Sssp>> = vec![None; b.n];
        for src in 0..b.n {
            for first_only in [false, true] {
                let sub = format!("{}|ss:w={}:src={}:first_only={}", b.case, weighted, b.names[src], first_only);
                let call = "dijkstra::single_source";
                calls += 1;
                let r = guarded(|| dijkstra::single_source(&b.g, weighted, b.names[src], None, None, first_only, true));
                let mk = |clause: &str, detail: String| {
                    let mut t = b.tags();
                    if !positive {
                        t.push("zero_weight_edge".into());
                    }
                    Violation::new(clause, call, sub.clone(), format!("{}\nweighted={weighted} source={} first_only={first_only}\n{detail}", b.describe(), b.names[src])).with_tags(t).with_snippet(b.snippet(&format!(
                        "    let r = graphrs::algorithms::shortest_path::dijkstra::single_source(&g, {weighted}, {:?}, None, None, {first_only}, true).unwrap();\n    // {}\n",
                        b.names[src],
                        detail.replace('\n', " ")
                    )))
                };
                match r {
                    Err(pi) => rec.record(mk("no_panic", pi.msg.clone()).with_panic(pi)),
                    Ok(Err(e)) => rec.record(mk("unexpected_error", format!("Err({:?})", e.kind))),
                    Ok(Ok(m)) => {
                        let res = canon_sssp(b, &m);
                        if res.values().any(|v| v.1.len() > 1) {
                            c.inc("results_with_path_ties");
                        }
                        check_against_oracle(b, &sim, src, &res, first_only, positive, &mut |cl, d| rec.record(mk(cl, d)));
                        if !first_only {
                            per_source[src] = Some(res);
                        }
                    }
                }
            }
            // the distance-only form of the same call (no paths requested): same nodes, same distances, no paths
            if let Some(full) = &per_source[src] {
                calls += 1;
                let sub = format!("{}|ssd:w={}:src={}", b.case, weighted, b.names[src]);
                let mkd = |clause: &str, detail: String| Violation::new(clause, "dijkstra::single_source", sub.clone(), format!("{}\nweighted={weighted} source={} with_paths=false first_only=false\n{detail}", b.describe(), b.names[src])).with_tags(b.tags()).with_snippet(b.snippet(&format!("    let r = graphrs::algorithms::shortest_path::dijkstra::single_source(&g, {weighted}, {:?}, None, None, false, false).unwrap();\n    // {}\n", b.names[src], detail.replace('\n', " "))));
                match guarded(|| dijkstra::single_source(&b.g, weighted, b.names[src], None, None, false, false)) {
                    Err(pi) => rec.record(mkd("no_panic", pi.msg.clone()).with_panic(pi)),
                    Ok(Err(e)) => rec.record(mkd("unexpected_error", format!("Err({:?})", e.kind))),
                    Ok(Ok(m)) => {
                        let res = canon_sssp(b, &m);
                        let same_nodes = res.len() == full.len() && res.keys().all(|k| full.contains_key(k));
                        if !same_nodes {
                            rec.record(mkd("distance_only_nodes", format!("reports {:?}, the call with paths reports {:?}", res.keys().map(|k| b.names[*k]).collect::<Vec<_>>(), full.keys().map(|k| b.names[*k]).collect::<Vec<_>>())));
                        } else {
                            for (k, (d, ps)) in &res {
                                if *d != full[k].0 {
                                    rec.record(mkd("distance", format!("distance to {} = {d}, true shortest length {}", b.names[*k], full[k].0)));
                                }
                                if !ps.is_empty() {
                                    rec.record(mkd("distance_only_paths", format!("paths {ps:?} returned although none were requested")));
                                }
                            }
                        }
                    }
                }
            }
        }
        // all_pairs and multi_source must reproduce the per-source answers
        let mut cmp = |call: &'static str, sub: String, got: Result<Result<HashMap<N, HashMap<N, ShortestPathInfo<N>>>, graphrs::Error>, PanicInfo>, sources: &[usize]| {
            let mk = |clause: &str, detail: String| Violation::new(clause, call, sub.clone(), format!("{}\nweighted={weighted}\n{detail}", b.describe())).with_tags(b.tags()).with_snippet(b.snippet(&format!("    // {call}: {}\n", detail.replace('\n', " "))));
            match got {
                Err(pi) => rec.record(mk("no_panic", pi.msg.clone()).with_panic(pi)),
                Ok(Err(e)) => rec.record(mk("unexpected_error", format!("Err({:?})", e.kind))),
                Ok(Ok(m)) => {
                    let keys: std::collections::BTreeSet<usize> = m.keys().map(|k| idx_of(b, k)).collect();
                    let exp_keys: std::collections::BTreeSet<usize> = sources.iter().cloned().collect();
                    if keys != exp_keys {
                        rec.record(mk("sources", format!("result has sources {keys:?}, expected {exp_keys:?}")));
                    }
                    for (s, hm) in &m {
                        let si = idx_of(b, s);
                        if let Some(exp) = &per_source[si] {
                            let got = canon_sssp(b, hm);
                            if got != *exp {
                                rec.record(mk("entry_point_agreement", format!("source {s}: {} but single_source gives {}", fmt_sssp(b, &got), fmt_sssp(b, exp))));
                            }
                        }
                    }
                }
            }
        };
        if b.n > 0 {
            calls += 1;
            let all: Vec<usize> = (0..b.n).collect();
            cmp("dijkstra::all_pairs", format!("{}|ap:w={}", b.case, weighted), guarded(|| dijkstra::all_pairs(&b.g, weighted, None, None, false, true)), &all);
            // the same two entry points with the parallel code path forced (hook H6; real rayon, whatever schedule occurs)
            calls += 2;
            graphrs::verif_hooks::set_parallel_override(Some(true));
            let rp = guarded(|| dijkstra::all_pairs(&b.g, weighted, None, None, false, true));
            let rm = guarded(|| dijkstra::multi_source(&b.g, weighted, all.iter().rev().map(|i| b.names[*i]).collect(), None, None, false, true));
            graphrs::verif_hooks::set_parallel_override(None);
            cmp("dijkstra::all_pairs", format!("{}|ap-par:w={}", b.case, weighted), rp, &all);
            cmp("dijkstra::multi_source", format!("{}|ms-par:w={}", b.case, weighted), rm, &all);
            // source LISTS (order and repetition are part of a valid call): every sequence of length <= 3
            if multi_source_subsets && b.n <= 3 {
                let mut seqs: Vec<Vec<usize>> = vec![];
                for a in 0..b.n {
                    seqs.push(vec![a, a]);
                    for z in 0..b.n {
                        if z != a {
                            seqs.push(vec![z, a]);
                            seqs.push(vec![a, a, z]);
                            seqs.push(vec![a, z, a]);
                            seqs.push(vec![z, a, a]);
                        }
                    }
                }
                for srcs in seqs {
                    let distinct: std::collections::BTreeSet<usize> = srcs.iter().cloned().collect();
                    if distinct.len() == srcs.len() && srcs.windows(2).all(|w| w[0] < w[1]) {
                        continue; // ascending distinct lists are the subsets below
                    }
                    calls += 1;
                    c.inc("multi_source_lists_with_repeats_or_reordering");
                    let want: Vec<usize> = distinct.into_iter().collect();
                    cmp("dijkstra::multi_source", format!("{}|ms:w={}:list={:?}", b.case, weighted, srcs), guarded(|| dijkstra::multi_source(&b.g, weighted, srcs.iter().map(|i| b.names[*i]).collect(), None, None, false, true)), &want);
                }
            }
            if multi_source_subsets && b.n <= 4 {
                for mask in 1..(1usize << b.n) {
                    let srcs: Vec<usize> = (0..b.n).filter(|i| mask >> i & 1 == 1).collect();
                    calls += 1;
                    cmp("dijkstra::multi_source", format!("{}|ms:w={}:mask={}", b.case, weighted, mask), guarded(|| dijkstra::multi_source(&b.g, weighted, srcs.iter().map(|i| b.names[*i]).collect(), None, None, false, true)), &srcs);
                }
            } else {
                calls += 1;
                cmp("dijkstra::multi_source", format!("{}|ms:w={}:all", b.case, weighted), guarded(|| dijkstra::multi_source(&b.g, weighted, all.iter().map(|i| b.names[*i]).collect(), None, None, false, true)), &all);
            }
        }
    }
    calls
}

pub fn kinds_all() -> Vec<Kind> {
    (0..8).map(Kind::from_idx).collect()
}
pub const DS: Kind = Kind { directed: true, multi: false, loops: false };
pub const US: Kind = Kind { directed: false, multi: false, loops: false };
pub const DSL: Kind = Kind { directed: true, multi: false, loops: true };
pub const USL: Kind = Kind { directed: false, multi: false, loops: true };
pub const DM: Kind = Kind { directed: true, multi: true, loops: false };
pub const UM: Kind = Kind { directed: false, multi: true, loops: false };
pub const DML: Kind = Kind { directed: true, multi: true, loops: true };
pub const UML: Kind = Kind { directed: false, multi: true, loops: true };

/// the graph families shared by the path-based properties (C04, C05, C06, C08)
/// small primed families (every graph re-checked after each primer call on its thread)
pub fn primed_small(walpha: &'static str, nmax: usize) -> Vec<Family> {
    let mut v = vec![];
    for n in 0..=nmax {
        for k in [DS, US] {
            v.push(fam_primed(k, n, walpha, &ORD_ONE));
        }
    }
    v
}

/// small families with query -> mutate -> query histories on every graph (see e2::MUTATION_LABELS)
pub fn hist_small(walpha: &'static str, multi_too: bool) -> Vec<Family> {
    let mut v = vec![];
    for k in [DS, US] {
        v.push(fam_hist(k, 2, walpha, &ORD_ONE));
        v.push(fam_hist(k, 3, walpha, &ORD_ONE));
    }
    v.push(fam_hist(DSL, 2, walpha, &ORD_ONE));
    if walpha != "u" {
        // the same histories on graphs whose specs replace / ignore duplicates (routes 5 and 6)
        v.push(fam_hist(US, 3, walpha, &[(52, 0), (62, 1)]));
        v.push(fam_hist(DS, 2, walpha, &[(52, 0), (62, 1)]));
    }
    if multi_too {
        v.push(fam_hist(UM, 2, walpha, &ORD_ONE));
        v.push(fam_hist(DM, 2, walpha, &ORD_ONE));
    }
    v
}

/// small families built through every construction route (see e2::ROUTE_LABELS)
pub fn route_small(walpha: &'static str, multi_too: bool) -> Vec<Family> {
    let mut v = vec![];
    for k in [US, DS, USL, DSL] {
        v.push(fam(k, 2, walpha, &ORD_ROUTES));
        if !k.loops {
            v.push(fam(k, 3, walpha, &ORD_ROUTES));
        }
    }
    if multi_too {
        for k in [UM, DM, UML, DML] {
            v.push(fam(k, 2, "u", &ORD_ROUTES));
        }
    }
    v
}

pub fn path_families(tier: &str) -> Vec<Family> {
    let mut v = primed_small("w12", 3);
    v.push(fam(US, 4, "wtiny", &ORD_ONE));
    v.push(fam(DS, 3, "wtiny", &ORD_ONE));
    v.push(fam(US, 3, "whuge", &ORD_ONE));
    v.push(fam(DS, 3, "whuge", &ORD_ONE));
    // the same abstract graphs reached through other construction routes
    for k in kinds_all() {
        v.push(fam(k, 2, "w12", &ORD_ROUTES));
        if !k.multi && (!k.loops || tier != "quick") {
            v.push(fam(k, 3, "w12", &ORD_ROUTES));
        }
    }
    v.push(fam(UM, 3, "u", &ORD_ROUTES));
    v.push(fam(DM, 3, "u", &ORD_ROUTES));
    v.extend(hist_small("w12", true));
    // weights keyed by the source / target node (row- or column-uniform weights)
    for s in ["ksrc", "ksrc2", "kdst"] {
        v.push(fam(DS, 4, s, &ORD_ONE));
    }
    v.push(fam(DS, 3, "ksum", &ORD_ONE));
    {
        let mut f = fam(DS, 3, "wf32", &ORD_ONE);
        if tier == "quick" {
            f.max_edges = 4;
        }
        v.push(f);
    }
    v.push(fam(US, 3, "wf32", &ORD_ONE));
    if tier != "quick" {
        let mut f = fam(DS, 4, "wlev", &ORD_ONE);
        f.min_edges = 5;
        f.max_edges = 6;
        v.push(f);
    }
    if tier == "quick" {
        for n in 0..=3 {
            for k in kinds_all() {
                v.push(fam(k, n, "u", &ORD_TWO));
                if n <= 2 || !k.multi {
                    v.push(fam(k, n, "w12", &ORD_TWO));
                }
            }
        }
        v.push(fam(DM, 3, "w12", &ORD_ONE));
        v.push(fam(UML, 3, "w12", &ORD_ONE));
        v.push(fam(DS, 4, "u", &ORD_TWO));
        v.push(fam(US, 4, "w12", &ORD_TWO));
        v.push(fam(US, 5, "u", &ORD_TWO));
        v.push(fam(US, 4, "w01", &ORD_ONE));
        v.push(fam(DS, 3, "w01", &ORD_TWO));
        v.push(fam(US, 5, "w12", &ORD_ONE));
    } else {
        for n in 0..=3 {
            for k in kinds_all() {
                v.push(fam(k, n, "u", &ORD_ALL));
                v.push(fam(k, n, "w12", if n <= 2 { &ORD_ALL } else { &ORD_TWO }));
            }
        }
        v.push(fam(DS, 4, "u", &ORD_ALL));
        v.push(fam(DSL, 4, "u", &ORD_TWO));
        v.push(fam(USL, 4, "w12", &ORD_TWO));
        v.push(fam(UM, 4, "u", &ORD_TWO));
        v.push(fam(US, 4, "w123", &ORD_ALL));
        v.push(fam(US, 5, "u", &ORD_ALL));
        v.push(fam(US, 5, "w12", &ORD_TWO));
        v.push(fam(US, 6, "u", &ORD_TWO));
        v.push(fam(DS, 4, "w12", &ORD_TWO));
        v.push(fam(DS, 5, "u", &ORD_ONE));
        v.push(fam(US, 4, "w012", &ORD_TWO));
        v.push(fam(DS, 3, "w012", &ORD_ALL));
        v.push(fam(DS, 4, "w01", &ORD_ONE));
        v.push(fam(US, 6, "w12", &ORD_ONE));
    }
    v
}

pub fn modes_for(f: &Family) -> Vec<bool> {
    if f.walpha == "u" {
        vec![false]
    } else if f.n <= 3 {
        vec![true, false]
    } else {
        vec![true]
    }
}

pub fn run(tier: &str, rec: &Recorder) -> RunOutput {
    let start = Instant::now();
    let mut out = RunOutput::new("model_checking");
    let deadline = start + Duration::from_secs_f64(wall_cap_s(tier));
    let stats = E2Stats::new();
    let seed = std::env::var("VERIF_SEED").ok().and_then(|s| s.parse().ok()).unwrap_or(0);
    for_each_family(&path_families(tier), |f| {
        let modes = modes_for(f);
        if f.walpha == "wlev" {
            // the three-level family is large: only the distance-only form against the form with paths (which the
            // other families tie to the oracle)
            for_each_graph(f, seed, deadline, &stats, |b, c| check_distance_only(b, rec, c));
            return;
        }
        for_each_graph(f, seed, deadline, &stats, |b, c| check_graph(b, rec, c, &modes, true));
    });
    {
        // size-gated (parallel) code path on graphs above the 20-node threshold, polynomial oracles
        let mut c = Counters::default();
        crate::large::c04_large(tier, rec, &mut c);
        stats.counters.lock().unwrap().merge(&c);
    }
    fill_e2_coverage(&mut out, &stats);
    out.set("traces_validated_against_impl", out.get("transitions"));
    out.set("distinct_nontrivial", out.get("results_with_path_ties"));
    out.set("rule", "every labelled graph of each family (kind x n x every assignment of {absent, weights, parallel pairs} to every pair slot x insertion-order variants); per graph every source x first_only through single_source, all source subsets (n<=4) through multi_source, and all_pairs; oracle = exhaustive enumeration of all simple paths over the stored edges. distinct_nontrivial = calls whose answer contains >= 2 equal-length shortest paths");
    out.require_nonzero("results_with_path_ties");
    out.assumptions = vec!["graphs up to the sizes listed under families; weights {1,2} ({1,2,3}, {0,1,2} in the named families), so every distance is exact".into(), "the >20-node parallel code path is C07's subject".into()];
    out
}

pub fn replay(case: &str, rec: &Recorder) -> bool {
    if case.starts_with("L:") {
        let mut c = Counters::default();
        crate::large::c04_large("thorough", rec, &mut c);
        return rec.has_any();
    }
    let (f, _, _, _, _) = match parse_case(case) {
        Some(x) => x,
        None => return false,
    };
    let seed = std::env::var("VERIF_SEED").ok().and_then(|s| s.parse().ok()).unwrap_or(0);
    // the run may have used any tier's order list for this family: try them all
    let mut lists: Vec<Vec<(u8, u8)>> = vec![];
    for tier in ["quick", "thorough"] {
        for pf in path_families(tier) {
            if pf.kind == f.kind && pf.n == f.n && pf.walpha == f.walpha && !lists.contains(&pf.orders) {
                lists.push(pf.orders.clone());
            }
        }
    }
    let modes = modes_for(&f);
    let dummy = Recorder::new("C04", &[]);
    for orders in lists {
        for round in 0..2 {
            replay_chunk(case, &orders, 0, seed, |b, target| {
                let mut c = Counters::default();
                if target {
                    println!("round {round}: {}", b.describe());
                }
                check_graph(b, if target { rec } else { &dummy }, &mut c, &modes, true);
            });
        }
        if rec.has_any() {
            return true;
        }
    }
    rec.has_any()
}
