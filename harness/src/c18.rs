//! C18 — eigenvector centrality returns a unit-norm approximate dominant eigenvector.
use crate::c04::*;
use crate::common::*;
use crate::e2::*;
use graphrs::algorithms::centrality::eigenvector;
use std::time::{Duration, Instant};

pub fn check_eigen(b: &Built, rec: &Recorder, c: &mut Counters) -> u64 {
    let mut calls = 0u64;
    let n = b.n;
    let modes: Vec<bool> = if b.weighted { vec![true, false] } else { vec![false] };
    for &weighted in &modes {
        // A[i][j] = weight of the edge i->j (symmetric when undirected; a loop once)
        let mut a = vec![vec![0.0f64; n]; n];
        for &(u, v, w) in &b.edges {
            let ww = if !weighted || w.is_nan() { 1.0 } else { w };
            a[u][v] = ww;
            if !b.kind.directed {
                a[v][u] = ww;
            }
        }
        let fro: f64 = a.iter().flatten().map(|x| x * x).sum::<f64>().sqrt();
        for max_iter in [1u32, 2, 5, 100, 1000] {
            for tol in [1e-2, 1e-6, 1e-12] {
                calls += 1;
                let sub = format!("{}|ev:w={weighted}:it={max_iter}:tol={tol:e}", b.case);
                let mk = |clause: &str, detail: String| {
                    Violation::new(clause, "eigenvector_centrality", sub.clone(), format!("{}\nweighted={weighted} max_iter={max_iter} tolerance={tol:e}\n{detail}", b.describe()))
                        .with_tags(b.tags())
                        .with_snippet(b.snippet(&format!("    let r = graphrs::algorithms::centrality::eigenvector::eigenvector_centrality(&g, {weighted}, Some({max_iter}), Some({tol:e}));\n    // {}\n", detail.replace('\n', " "))))
                };
                match guarded(|| eigenvector::eigenvector_centrality(&b.g, weighted, Some(max_iter), Some(tol))) {
                    Err(pi) => rec.record(mk("no_panic", pi.msg.clone()).with_panic(pi)),
                    Ok(Err(e)) => {
                        c.inc("returned_err");
                        if format!("{:?}", e.kind) != "PowerIterationFailedConvergence" {
                            rec.record(mk("error_kind", format!("Err({:?}), expected PowerIterationFailedConvergence", e.kind)));
                        }
                    }
                    Ok(Ok(m)) => {
                        c.inc("returned_ok");
                        if m.len() != n || !b.names.iter().all(|x| m.contains_key(x)) {
                            rec.record(mk("one_entry_per_node", format!("keys {:?}", m.keys().collect::<Vec<_>>())));
                            continue;
                        }
                        if n == 0 {
                            continue;
                        }
                        let x: Vec<f64> = b.names.iter().map(|k| m[k]).collect();
                        if x.iter().any(|v| !(*v >= 0.0)) {
                            rec.record(mk("non_negative", format!("vector {x:?} has a negative or NaN entry")));
                            continue;
                        }
                        let norm: f64 = x.iter().map(|v| v * v).sum::<f64>().sqrt();
                        if (norm - 1.0).abs() > 1e-9 {
                            rec.record(mk("unit_norm", format!("Euclidean norm of the result is {norm}")));
                            continue;
                        }
                        // one further documented step: y = normalise(x + A^T x)
                        let mut y = x.clone();
                        for i in 0..n {
                            for j in 0..n {
                                y[j] += x[i] * a[i][j];
                            }
                        }
                        let ny: f64 = y.iter().map(|v| v * v).sum::<f64>().sqrt();
                        let y: Vec<f64> = y.iter().map(|v| v / ny).collect();
                        let diff: f64 = x.iter().zip(&y).map(|(p, q)| (p - q) * (p - q)).sum::<f64>().sqrt();
                        let bound = 2.0 * (1.0 + fro) * n as f64 * tol * (1.0 + 1e-9) + 1e-12;
                        if diff > bound {
                            rec.record(mk("fixed_point", format!("one further step x -> normalise(x + A^T x) moves the result by {diff:e}, tolerance-derived bound {bound:e}; result {x:?}, next iterate {y:?}")));
                        }
                        if b.kind.directed && (0..n).any(|i| (0..n).any(|j| a[i][j] != a[j][i])) {
                            c.inc("ok_on_asymmetric_digraphs");
                        }
                    }
                }
            }
        }
    }
    calls
}

pub fn c18_families(tier: &str) -> Vec<Family> {
    let mut v = primed_small("w12", 3);
    v.extend(route_small("w12", false));
    v.extend(hist_small("w12", false));
    if tier == "quick" {
        for n in 0..=3 {
            for k in [US, USL, DS, DSL] {
                v.push(fam(k, n, "u", &ORD_ONE));
                if n <= 2 || !k.loops {
                    v.push(fam(k, n, "w012", &ORD_ONE));
                }
            }
        }
        v.push(fam(US, 4, "u", &ORD_ONE));
        v.push(fam(DS, 4, "u", &ORD_ONE));
        v.push(fam(US, 4, "w12", &ORD_ONE));
        v.push(fam(US, 5, "u", &ORD_ONE));
        v.push(fam(US, 4, "w012", &ORD_ONE));
    } else {
        for n in 0..=3 {
            for k in [US, USL, DS, DSL] {
                v.push(fam(k, n, "u", &ORD_TWO));
                v.push(fam(k, n, "w012", &ORD_ONE));
            }
        }
        v.push(fam(US, 4, "u", &ORD_TWO));
        v.push(fam(USL, 4, "u", &ORD_ONE));
        v.push(fam(DS, 4, "u", &ORD_TWO));
        v.push(fam(US, 4, "w012", &ORD_ONE));
        v.push(fam(US, 5, "u", &ORD_ONE));
        v.push(fam(DS, 4, "w12", &ORD_ONE));
    }
    v
}

pub fn run(tier: &str, rec: &Recorder) -> RunOutput {
    let start = Instant::now();
    let mut out = RunOutput::new("model_checking");
    let deadline = start + Duration::from_secs_f64(wall_cap_s(tier));
    let stats = E2Stats::new();
    let seed = std::env::var("VERIF_SEED").ok().and_then(|s| s.parse().ok()).unwrap_or(0);
    for_each_family(&c18_families(tier), |f| {
        for_each_graph(f, seed, deadline, &stats, |b, c| check_eigen(b, rec, c));
    });
    {
        let mut c = Counters::default();
        crate::large::c18_large(tier, rec, &mut c);
        stats.counters.lock().unwrap().merge(&c);
    }
    fill_e2_coverage(&mut out, &stats);
    out.set("traces_validated_against_impl", out.get("transitions"));
    out.set("distinct_nontrivial", out.get("returned_ok"));
    out.set("rule", "every labelled single-edge graph of each family (directed n<=4 incl. loop placements at n<=3, undirected n<=5; unweighted and weights {0,1,2}) x max_iter in {1,2,5,100,1000} x tolerance in {1e-2,1e-6,1e-12}; on Ok: one entry per node, entries >= 0, |norm-1| <= 1e-9, and one further step normalise(x + A^T x) moves the vector by at most 2(1+||A||_F) n tol (derived bound); on Err: kind PowerIterationFailedConvergence. distinct_nontrivial = calls that returned Ok");
    for k in ["returned_ok", "returned_err", "ok_on_asymmetric_digraphs"] {
        out.require_nonzero(k);
    }
    out.assumptions = vec![
        "whether a particular (graph, max_iter, tolerance) converges is not asserted (summation order depends on hash keys)".into(),
        "bound derivation: accepted iterate has ||x - x_prev||_1 < n tol; ||I + A^T||_2 <= 1 + ||A||_F; normalisation is 2-Lipschitz where one argument has norm >= 1".into(),
    ];
    out
}

pub fn replay(case: &str, rec: &Recorder) -> bool {
    if case.starts_with("L:") {
        let mut c = Counters::default();
        crate::large::c18_large("thorough", rec, &mut c);
        return rec.has_any();
    }
    let (f, _, _, _, _) = match parse_case(case) {
        Some(x) => x,
        None => return false,
    };
    let seed = std::env::var("VERIF_SEED").ok().and_then(|s| s.parse().ok()).unwrap_or(0);
    let mut lists: Vec<Vec<(u8, u8)>> = vec![];
    for tier in ["quick", "thorough"] {
        for pf in c18_families(tier) {
            if pf.kind == f.kind && pf.n == f.n && pf.walpha == f.walpha && !lists.contains(&pf.orders) {
                lists.push(pf.orders.clone());
            }
        }
    }
    let dummy = Recorder::new("C18", &[]);
    for orders in lists {
        for round in 0..2 {
            replay_chunk(case, &orders, 0, seed, |b, target| {
                let mut c = Counters::default();
                if target {
                    println!("round {round}: {}", b.describe());
                }
                check_eigen(b, if target { rec } else { &dummy }, &mut c);
            });
        }
        if rec.has_any() {
            return true;
        }
    }
    rec.has_any()
}
