//! C17 — a seed makes randomised functions reproducible.
//! Deciding part: E3 over the hash-order choice points of Louvain: the set of outcomes over all
//! explored orders must be a singleton. Supplementary: hash-seed / thread-pool environment sweep.
use crate::c04::*;
use crate::c13::{exec_louvain, Outcome};
use crate::common::*;
use crate::e2::*;
use crate::e3;
use graphrs::algorithms::centrality::{betweenness, closeness};
use graphrs::algorithms::cluster;
use graphrs::algorithms::community::louvain;
use graphrs::algorithms::components;
use graphrs::algorithms::shortest_path::dijkstra;
use graphrs::generators::random;
use graphrs::{Edge, Node};
use std::collections::{BTreeMap, BTreeSet};
use std::time::{Duration, Instant};

/// named tie-rich graphs (undirected, unweighted)
fn named() -> Vec<(String, usize, Vec<(usize, usize)>)> {
    let mut v = vec![];
    for n in 2..=8 {
        v.push((format!("P{n}"), n, (0..n - 1).map(|i| (i, i + 1)).collect()));
    }
    for n in 3..=8 {
        v.push((format!("C{n}"), n, (0..n).map(|i| (i, (i + 1) % n)).collect()));
    }
    v.push(("K4".into(), 4, vec![(0, 1), (0, 2), (0, 3), (1, 2), (1, 3), (2, 3)]));
    v.push(("K33".into(), 6, (0..3).flat_map(|i| (3..6).map(move |j| (i, j))).collect()));
    v.push(("cube".into(), 8, vec![(0, 1), (1, 2), (2, 3), (3, 0), (4, 5), (5, 6), (6, 7), (7, 4), (0, 4), (1, 5), (2, 6), (3, 7)]));
    v.push(("two_triangles".into(), 6, vec![(0, 1), (1, 2), (0, 2), (3, 4), (4, 5), (3, 5), (2, 3)]));
    v
}

pub fn build_named(i: usize, directed: bool, reverse_nodes: bool) -> Built {
    let (label, n, es) = &named()[i];
    let kind = Kind { directed, multi: false, loops: false };
    let names: Vec<N> = NAMES8[..*n].to_vec();
    let edges: Vec<(usize, usize, f64)> = es.iter().map(|&(u, v)| (u, v, f64::NAN)).collect();
    let node_order: Vec<usize> = if reverse_nodes { (0..*n).rev().collect() } else { (0..*n).collect() };
    let mut g = G2::new(kind.specs());
    for &k in &node_order {
        g.add_node(Node::from_name(names[k]));
    }
    for &(u, v, _) in &edges {
        g.add_edge(Edge::new(names[u], names[v])).expect("named build");
    }
    Built { kind, n: *n, names, edges, node_order, g, case: format!("named:{label}:{}:{}:{}", i, directed as u8, reverse_nodes as u8), weighted: false }
}

pub struct Params {
    pub bound: usize,
    pub budget: u64,
    pub seeds: Vec<u64>,
    pub float_sites: bool,
}

/// deciding part for one graph: the outcome set over explored hash orders is a singleton
pub fn check_reproducible(b: &Built, rec: &Recorder, c: &mut Counters, p: &Params) -> u64 {
    let mut calls = 0u64;
    let modes: Vec<bool> = if b.weighted { vec![true, false] } else { vec![false] };
    let ignore: Vec<&'static str> = if p.float_sites { vec![] } else { vec!["louvain.nbr_weights"] };
    for &weighted in &modes {
        for &seed in &p.seeds {
            let sub = format!("{}|rep:w={weighted}:seed={seed}", b.case);
            let mut outcomes: BTreeMap<Outcome, Vec<u64>> = BTreeMap::new();
            let mut run = |prefix: &[u64]| -> (Vec<e3::Point>, Option<String>) {
                let ex = exec_louvain(b, weighted, None, None, Some(seed), Some(prefix), &ignore);
                outcomes.entry(ex.outcome).or_insert_with(|| prefix.to_vec());
                (ex.points, ex.diverged)
            };
            let st = e3::explore(p.bound, p.budget, &mut run);
            calls += st.executions;
            c.addn("executions", st.executions);
            c.addn("choice_points", st.choice_points);
            if st.divergences > 0 {
                // The same (input, seed, choice prefix) produced a different sequence of choice points:
                // the code depends on nondeterminism the seams do not own. Confirm on the real code:
                // free-running calls under different hash-key environments must then disagree.
                c.inc("choice_replay_divergences");
                let mut free: BTreeMap<Outcome, u64> = BTreeMap::new();
                for hs in 0..16u64 {
                    if let Ok(o) = on_fresh_thread_scoped(500 + hs, || exec_louvain(b, weighted, None, None, Some(seed), None, &[]).outcome) {
                        free.entry(o).or_insert(hs);
                    }
                    calls += 1;
                }
                if free.len() > 1 {
                    let mut it = free.iter();
                    let (o1, h1) = it.next().unwrap();
                    let (o2, h2) = it.next().unwrap();
                    let mut t = b.tags();
                    t.push("hash_order_dependence_outside_seams".into());
                    rec.record(
                        Violation::new("seeded_louvain_reproducible", "louvain_partitions", format!("{sub}|free"), format!("{}\nlouvain_partitions(weighted={weighted}, None, None, Some({seed})) on real hash orders gives {} different results over 16 hash-key environments (and its sequence of hash-order choice points is not a function of the explorer's answers), e.g.\n  environment {h1} -> {o1:?}\n  environment {h2} -> {o2:?}", b.describe(), free.len()))
                            .with_tags(t)
                            .with_snippet(b.snippet(&format!("    // call louvain_partitions(&g, {weighted}, None, None, Some({seed})) repeatedly: the result differs between calls\n"))),
                    );
                } else {
                    c.inc("unexplained_choice_replay_divergences");
                }
                continue;
            }
            if st.max_points > 0 {
                c.inc("inputs_with_choice_points");
            }
            if st.truncated {
                c.inc("inputs_truncated_by_budget");
            }
            // history independence: the thread this runs on has seen other graphs (same size, other creation orders, same
            // seeds); the same call on a thread without any history must give the same result
            if let Ok(o) = on_fresh_thread_scoped(900, || exec_louvain(b, weighted, None, None, Some(seed), None, &[]).outcome) {
                calls += 1;
                c.inc("fresh_thread_comparisons");
                outcomes.entry(o).or_insert_with(|| vec![u64::MAX]);
            }
            c.addn("distinct_outcomes_total", outcomes.len() as u64);
            c.inc("inputs");
            if outcomes.len() > 1 {
                let mut it = outcomes.iter();
                let (o1, p1) = it.next().unwrap();
                let (o2, p2) = it.next().unwrap();
                let mut t = b.tags();
                t.push("hash_order_dependent_ties".into());
                rec.record(
                    Violation::new("seeded_louvain_singleton", "louvain_partitions", sub.clone(), format!("{}\nlouvain_partitions(weighted={weighted}, None, None, Some({seed})) has {} different results over {} explored hash-map iteration orders, e.g.\n  order choices {p1:?} -> {o1:?}\n  order choices {p2:?} -> {o2:?}", b.describe(), outcomes.len(), st.executions))
                        .with_tags(t)
                        .with_snippet(b.snippet(&format!("    // call louvain_partitions(&g, {weighted}, None, None, Some({seed})) repeatedly: the result differs between calls\n"))),
                );
            }
        }
    }
    calls
}

/// A hub with three spokes to anchored pairs: u - a_i (spoke weight), a_i - a_i' (pair weight). When u is visited it
/// sees three established candidate communities at once - the decision the local-moving step is about. Spoke
/// weights over {1,2}, pair weights over {5, +inf} (an infinite pair makes the gain towards it NaN), two layouts
/// of the names (hub last-but-one as in a-a'-x-c-c'-u-y, hub first).
pub fn hub_inputs() -> Vec<Built> {
    let mut v = vec![];
    for layout in 0..2usize {
        // (anchor, partner) indices and the hub index
        let (pairs, hub): ([(usize, usize); 3], usize) = if layout == 0 { ([(0, 1), (2, 6), (3, 4)], 5) } else { ([(1, 2), (3, 6), (4, 5)], 0) };
        for sw in 0..8usize {
            for pw in 0..8usize {
                let mut es: Vec<(usize, usize, f64)> = vec![];
                for (i, &(a, p)) in pairs.iter().enumerate() {
                    es.push((a, p, if pw >> i & 1 == 1 { f64::INFINITY } else { 5.0 }));
                }
                for (i, &(a, _)) in pairs.iter().enumerate() {
                    es.push((hub, a, if sw >> i & 1 == 1 { 2.0 } else { 1.0 }));
                }
                v.push(build_custom(US, 7, &es, &format!("hub3:{layout}:{sw}:{pw}")));
            }
        }
    }
    v
}

/// real hash orders: the same seeded call under several hash-key environments must agree (used on
/// the inexact-weight families, where float sums over hash-ordered collections are the risk)
pub fn check_free_reproducible(b: &Built, rec: &Recorder, c: &mut Counters, envs: u64) -> u64 {
    check_free_reproducible_seeds(b, rec, c, envs, &[0, 1])
}

pub fn check_free_reproducible_seeds(b: &Built, rec: &Recorder, c: &mut Counters, envs: u64, seeds: &[u64]) -> u64 {
    let mut calls = 0;
    for &seed in seeds {
        let mut outcomes: BTreeMap<Outcome, u64> = BTreeMap::new();
        for hs in 0..envs {
            if let Ok(o) = on_fresh_thread_scoped(700 + hs, || exec_louvain(b, true, None, None, Some(seed), None, &[]).outcome) {
                outcomes.entry(o).or_insert(hs);
            }
            calls += 1;
        }
        c.addn("free_running_executions", envs);
        if outcomes.len() > 1 {
            let mut it = outcomes.iter();
            let (o1, h1) = it.next().unwrap();
            let (o2, h2) = it.next().unwrap();
            let mut t = b.tags();
            t.push("inexact_weights".into());
            rec.record(
                Violation::new("seeded_louvain_reproducible", "louvain_partitions", format!("{}|free:seed={seed}", b.case), format!("{}\nlouvain_partitions(weighted=true, None, None, Some({seed})) on real hash orders gives {} different results over {envs} hash-key environments, e.g.\n  environment {h1} -> {o1:?}\n  environment {h2} -> {o2:?}", b.describe(), outcomes.len()))
                    .with_tags(t)
                    .with_snippet(b.snippet(&format!("    // call louvain_partitions(&g, true, None, None, Some({seed})) repeatedly: the result differs between calls\n"))),
            );
        }
    }
    calls
}

/// The input of the seeded call is itself the RESULT of another API call, recomputed in every hash-key
/// environment (reverse of the reverse for digraphs, the subgraph on all nodes otherwise): same graph,
/// same seed, same answer - the derived graph must not carry an order that depends on the environment.
pub fn check_chain_reproducible(b: &Built, rec: &Recorder, c: &mut Counters, envs: u64) -> u64 {
    let mut calls = 0;
    for seed in [0u64, 1] {
        let mut outcomes: BTreeMap<Outcome, u64> = BTreeMap::new();
        for hs in 0..envs {
            let r = on_fresh_thread_scoped(800 + hs, || {
                let g2 = if b.kind.directed {
                    b.g.reverse().expect("reverse").reverse().expect("reverse")
                } else {
                    let mut all: Vec<N> = b.names.clone();
                    all.reverse();
                    b.g.get_subgraph(&all)
                };
                let b2 = Built { kind: b.kind, n: b.n, names: b.names.clone(), edges: b.edges.clone(), node_order: b.node_order.clone(), g: g2, case: b.case.clone(), weighted: b.weighted };
                exec_louvain(&b2, b.weighted, None, None, Some(seed), None, &[]).outcome
            });
            if let Ok(o) = r {
                outcomes.entry(o).or_insert(hs);
            }
            calls += 1;
        }
        c.addn("derived_graph_executions", envs);
        if outcomes.len() > 1 {
            let mut it = outcomes.iter();
            let (o1, h1) = it.next().unwrap();
            let (o2, h2) = it.next().unwrap();
            let how = if b.kind.directed { "g.reverse().reverse()" } else { "g.get_subgraph(all nodes)" };
            rec.record(
                Violation::new("seeded_louvain_reproducible_on_derived_graph", "louvain_partitions", format!("{}|chain:seed={seed}", b.case), format!("{}\nlouvain_partitions({how}, weighted={}, None, None, Some({seed})) gives {} different results over {envs} hash-key environments, e.g.\n  environment {h1} -> {o1:?}\n  environment {h2} -> {o2:?}", b.describe(), b.weighted, outcomes.len()))
                    .with_tags(b.tags())
                    .with_snippet(b.snippet(&format!("    // call louvain_partitions(&{how}, {}, None, None, Some({seed})) repeatedly: the result differs between calls\n", b.weighted))),
            );
        }
    }
    calls
}

fn canon_levels(r: &Result<Vec<Vec<std::collections::HashSet<i32>>>, graphrs::Error>) -> String {
    match r {
        Err(e) => format!("Err({:?})", e.kind),
        Ok(lv) => {
            let v: Vec<BTreeSet<BTreeSet<i32>>> = lv.iter().map(|l| l.iter().map(|c| c.iter().cloned().collect()).collect()).collect();
            format!("{v:?}")
        }
    }
}

/// environment sweep on real code (sampling of hash-key environments and pool sizes; labelled as such)
fn environment_sweep(tier: &str, rec: &Recorder, out: &mut RunOutput) {
    let hash_seeds: u64 = if tier == "quick" { 8 } else { 16 };
    let mut runs = 0u64;
    // fast_gnp with a seed: same graph under every hash seed and pool size
    for directed in [false, true] {
        for (n, p) in [(10, 0.5), (40, 0.1), (120, 0.05), (300, 0.02), (1500, 0.004), (5000, 0.001)] {
            for seed in [0u64, 1, 42] {
                let reference = on_fresh_thread(0, move || gnp_canon(n, p, directed, seed)).unwrap_or_else(|e| format!("panic {}", e.msg));
                for hs in 1..hash_seeds {
                    runs += 1;
                    let got = on_fresh_thread(hs, move || gnp_canon(n, p, directed, seed)).unwrap_or_else(|e| format!("panic {}", e.msg));
                    if got != reference {
                        rec.record(Violation::new("seeded_gnp_reproducible", "fast_gnp_random_graph", format!("env:gnp:{directed}:{n}:{p}:{seed}:hs={hs}"), format!("fast_gnp_random_graph({n}, {p}, {directed}, Some({seed})) differs between hash environments 0 and {hs}")));
                    }
                }
                for threads in [1usize, 2, 16] {
                    runs += 1;
                    let pool = rayon::ThreadPoolBuilder::new().num_threads(threads).build().expect("pool");
                    let got = pool.install(|| gnp_canon(n, p, directed, seed));
                    if got != reference {
                        rec.record(Violation::new("seeded_gnp_reproducible", "fast_gnp_random_graph", format!("env:gnp:{directed}:{n}:{p}:{seed}:threads={threads}"), format!("fast_gnp_random_graph({n}, {p}, {directed}, Some({seed})) differs inside a {threads}-thread pool")));
                    }
                }
            }
        }
    }
    // seeded Louvain on real hash orders: karate club, random graphs, tie-rich named graphs
    let mut inputs: Vec<(String, Box<dyn Fn() -> graphrs::Graph<i32, ()> + Send + Sync>)> = vec![];
    inputs.push(("karate".into(), Box::new(graphrs::generators::social::karate_club_graph)));
    inputs.push(("gnp(30,0.15,undirected,seed 3)".into(), Box::new(|| random::fast_gnp_random_graph(30, 0.15, false, Some(3)).unwrap())));
    inputs.push(("gnp(25,0.15,directed,seed 4)".into(), Box::new(|| random::fast_gnp_random_graph(25, 0.15, true, Some(4)).unwrap())));
    inputs.push(("complete_graph(6)".into(), Box::new(|| graphrs::generators::classic::complete_graph(6, false))));
    for legs in [70i32, 300] {
        // spider: a hub with `legs` legs of two nodes - more neighbouring communities than any small fixed bound
        inputs.push((format!("spider({legs})"), Box::new(move || {
            let mut g: graphrs::Graph<i32, ()> = graphrs::Graph::new(graphrs::GraphSpecs::undirected_create_missing());
            for k in 0..legs {
                g.add_edge(Edge::new(0, 1 + 2 * k)).unwrap();
                g.add_edge(Edge::new(1 + 2 * k, 2 + 2 * k)).unwrap();
            }
            g
        })));
    }
    for n in [30i32, 100] {
        // long cycles: several aggregation levels with exact ties on every level
        inputs.push((format!("cycle({n})"), Box::new(move || {
            let mut g: graphrs::Graph<i32, ()> = graphrs::Graph::new(graphrs::GraphSpecs::undirected_create_missing());
            for k in 0..n {
                g.add_edge(Edge::new(k, (k + 1) % n)).unwrap();
            }
            g
        })));
    }
    for (i, (label, n, es)) in named().into_iter().enumerate() {
        let _ = i;
        let es2 = es.clone();
        inputs.push((label, Box::new(move || {
            let mut g: graphrs::Graph<i32, ()> = graphrs::Graph::new(graphrs::GraphSpecs::undirected_create_missing());
            for k in 0..n {
                g.add_node(Node::from_name(k as i32));
            }
            for &(u, v) in &es2 {
                g.add_edge(Edge::new(u as i32, v as i32)).unwrap();
            }
            g
        })));
    }
    let inputs = std::sync::Arc::new(inputs);
    for ii in 0..inputs.len() {
        // ordinary seeds and the ends of the seed range (a seed is any u64)
        for seed in [0u64, 1, 2, u64::MAX, u64::MAX - 1, 1u64 << 63] {
            let inp = inputs.clone();
            let reference = on_fresh_thread(0, move || canon_levels(&louvain::louvain_partitions(&(inp[ii].1)(), false, None, None, Some(seed)))).unwrap_or_else(|e| format!("panic {}", e.msg));
            for hs in 1..hash_seeds {
                runs += 1;
                let inp = inputs.clone();
                let got = on_fresh_thread(hs, move || canon_levels(&louvain::louvain_partitions(&(inp[ii].1)(), false, None, None, Some(seed)))).unwrap_or_else(|e| format!("panic {}", e.msg));
                if got != reference {
                    rec.record(
                        Violation::new("seeded_louvain_reproducible", "louvain_partitions", format!("env:louvain:{}:{seed}:hs={hs}", inputs[ii].0), format!("louvain_partitions({}, false, None, None, Some({seed})) on real hash orders differs between hash environments 0 and {hs}:\n  {reference}\n  {got}", inputs[ii].0))
                            .with_tags(vec!["hash_order_dependent_ties".into()]),
                    );
                }
            }
            for threads in [1usize, 2, 16] {
                runs += 1;
                let inp = inputs.clone();
                // a pool thread has its own hash keys; use the same environment as the reference by running install() from a fresh thread with seed 0
                let got = on_fresh_thread(0, move || {
                    let pool = rayon::ThreadPoolBuilder::new().num_threads(threads).build().expect("pool");
                    let g = (inp[ii].1)();
                    let _ = pool.install(|| rayon::current_num_threads());
                    canon_levels(&louvain::louvain_partitions(&g, false, None, None, Some(seed)))
                })
                .unwrap_or_else(|e| format!("panic {}", e.msg));
                if got != reference {
                    rec.record(Violation::new("seeded_louvain_reproducible", "louvain_partitions", format!("env:louvain:{}:{seed}:threads={threads}", inputs[ii].0), format!("differs with a {threads}-thread pool present")).with_tags(vec!["hash_order_dependent_ties".into()]));
                }
            }
        }
    }
    out.set("environment_runs_sampled", runs);
    out.set("hash_environments_sampled", hash_seeds);
}

fn gnp_canon(n: i32, p: f64, directed: bool, seed: u64) -> String {
    match random::fast_gnp_random_graph(n, p, directed, Some(seed)) {
        Err(e) => format!("Err({:?})", e.kind),
        Ok(g) => {
            let nodes: Vec<i32> = g.get_all_nodes().iter().map(|x| x.name).collect();
            let mut es: Vec<(i32, i32)> = g.get_all_edges().iter().map(|e| (e.u, e.v)).collect();
            es.sort();
            format!("{nodes:?}|{es:?}")
        }
    }
}

/// canonical text of every non-randomised algorithm's answer on one graph (floats to 9 significant digits)
fn deterministic_answers(b: &Built) -> Vec<(&'static str, String)> {
    let g = &b.g;
    let f = |x: f64| format!("{:.9e}", x);
    let mut out: Vec<(&'static str, String)> = vec![];
    for weighted in if b.weighted { vec![false, true] } else { vec![false] } {
        let ap = dijkstra::all_pairs(g, weighted, None, None, false, true).map(|m| {
            let mut v: Vec<String> = vec![];
            for (s, hm) in &m {
                for (t, spi) in hm {
                    let mut ps = spi.paths.clone();
                    ps.sort();
                    v.push(format!("{s}>{t}:{}:{ps:?}", f(spi.distance)));
                }
            }
            v.sort();
            v
        });
        out.push(("all_pairs", format!("{:?}", ap.map_err(|e| format!("{:?}", e.kind)))));
        for flag in [false, true] {
            let m = |r: Result<std::collections::HashMap<N, f64>, graphrs::Error>| format!("{:?}", r.map(|m| m.into_iter().map(|(k, v)| (k, f(v))).collect::<BTreeMap<_, _>>()).map_err(|e| format!("{:?}", e.kind)));
            out.push(("betweenness", m(betweenness::betweenness_centrality(g, weighted, flag))));
            out.push(("closeness", m(closeness::closeness_centrality(g, weighted, flag))));
        }
        let m = |r: Result<std::collections::HashMap<N, f64>, graphrs::Error>| format!("{:?}", r.map(|m| m.into_iter().map(|(k, v)| (k, f(v))).collect::<BTreeMap<_, _>>()).map_err(|e| format!("{:?}", e.kind)));
        out.push(("clustering", m(cluster::clustering(g, weighted, None))));
    }
    out.push(("triangles", format!("{:?}", cluster::triangles(g, None).map(|m| m.into_iter().collect::<BTreeMap<_, _>>()).map_err(|e| format!("{:?}", e.kind)))));
    out.push(("transitivity", format!("{:?}", guarded(|| cluster::transitivity(g)).map(|r| r.map(f).map_err(|e| format!("{:?}", e.kind))).map_err(|p| p.msg))));
    out.push(("square_clustering", format!("{:?}", cluster::square_clustering(g, None).into_iter().map(|(k, v)| (k, f(v))).collect::<BTreeMap<_, _>>())));
    let sets = |r: Result<Vec<std::collections::HashSet<N>>, graphrs::Error>| format!("{:?}", r.map(|v| v.into_iter().map(|s| s.into_iter().collect::<BTreeSet<_>>()).collect::<BTreeSet<_>>()).map_err(|e| format!("{:?}", e.kind)));
    out.push(("connected_components", sets(components::connected_components(g))));
    out.push(("strongly_connected_components", sets(components::strongly_connected_components(g))));
    out.push(("weakly_connected_components", sets(components::weakly_connected_components(g))));
    for k in 1..=b.n.max(1) {
        out.push(("bfs_equal_size_partitions", format!("{:?}", components::bfs_equal_size_partitions(g, k))));
    }
    out.push(("degree_centrality", format!("{:?}", graphrs::algorithms::centrality::degree::degree_centrality(g).into_iter().map(|(k, v)| (k, f(v))).collect::<BTreeMap<_, _>>())));
    out.push(("density", f(g.get_density())));
    out
}

fn deterministic_sweep(tier: &str, rec: &Recorder, out: &mut RunOutput) {
    let fams: Vec<Family> = if tier == "quick" {
        vec![fam(US, 3, "w12", &ORD_ONE), fam(DS, 3, "u", &ORD_ONE), fam(UML, 2, "u", &ORD_ONE), fam(US, 4, "u", &ORD_ONE)]
    } else {
        let mut v = vec![];
        for k in kinds_all() {
            v.push(fam(k, 2, "w12", &ORD_ONE));
            if !(k.multi && k.loops) {
                v.push(fam(k, 3, "u", &ORD_ONE));
            }
        }
        v.push(fam(US, 3, "w12", &ORD_ONE));
        v.push(fam(DS, 3, "w12", &ORD_ONE));
        v.push(fam(US, 4, "u", &ORD_ONE));
        v.push(fam(DS, 4, "u", &ORD_ONE));
        v
    };
    let hash_seeds: u64 = if tier == "quick" { 4 } else { 16 };
    let total = std::sync::Mutex::new((0u64, 0u64));
    for f in fams {
        let cnt = f.count();
        par_for(cnt as usize, |i| {
            let idx = i as u64;
            let (no, eo) = f.orders[0];
            let f2 = f.clone();
            let reference = match on_fresh_thread(0, move || deterministic_answers(&build(&f2, idx, no, eo))) {
                Ok(r) => r,
                Err(_) => return, // panics are C20's business
            };
            let mut runs = 0;
            for hs in 1..hash_seeds {
                let f2 = f.clone();
                if let Ok(got) = on_fresh_thread(hs, move || deterministic_answers(&build(&f2, idx, no, eo))) {
                    runs += 1;
                    for ((name, a), (_, z)) in reference.iter().zip(got.iter()) {
                        if a != z {
                            let b = build(&f, idx, no, eo);
                            rec.record(Violation::new("deterministic_algorithm", name, format!("{}|det:{name}:hs={hs}", b.case), format!("{}\n{name} differs between hash environments 0 and {hs}:\n  {a}\n  {z}", b.describe())).with_tags(b.tags()));
                        }
                    }
                }
            }
            let mut t = total.lock().unwrap();
            t.0 += 1;
            t.1 += runs;
        });
    }
    let t = total.into_inner().unwrap();
    out.set("deterministic_sweep_graphs", t.0);
    out.set("deterministic_sweep_runs_sampled", t.1);
}

pub fn params(tier: &str) -> Params {
    if tier == "quick" {
        Params { bound: 1, budget: 400, seeds: vec![0, 1], float_sites: false }
    } else {
        Params { bound: 3, budget: 100_000, seeds: vec![0, 1, 2], float_sites: false }
    }
}

pub fn c17_families(tier: &str) -> Vec<Family> {
    let mut v = vec![];
    let mut add = |mut f: Family| {
        f.min_edges = 1;
        v.push(f);
    };
    add(fam_primed(US, 3, "w12", &ORD_ONE));
    add(fam_primed(DS, 3, "u", &ORD_ONE));
    if tier == "quick" {
        add(fam(US, 3, "u", &ORD_ONE));
        add(fam(US, 4, "u", &ORD_TWO)); // two creation orders alternate on one thread
        add(fam(US, 4, "u", &ORD_ONE));
        add(fam(DS, 3, "u", &ORD_ONE));
        add(fam(US, 3, "w12", &ORD_ONE));
    } else {
        add(fam(US, 3, "u", &ORD_TWO));
        add(fam(US, 4, "u", &ORD_TWO));
        add(fam(US, 5, "u", &ORD_ONE));
        add(fam(DS, 3, "u", &ORD_TWO));
        add(fam(DS, 4, "u", &ORD_ONE));
        add(fam(US, 4, "w12", &ORD_ONE));
        add(fam(DS, 3, "w12", &ORD_ONE));
    }
    v
}

pub fn run(tier: &str, rec: &Recorder) -> RunOutput {
    let start = Instant::now();
    let mut out = RunOutput::new("model_checking");
    let deadline = start + Duration::from_secs_f64(wall_cap_s(tier));
    let stats = E2Stats::new();
    let seed = std::env::var("VERIF_SEED").ok().and_then(|s| s.parse().ok()).unwrap_or(0);
    let p = params(tier);
    // named tie-rich graphs first (simplest-first within the list)
    let nn = named().len();
    let named_tot = std::sync::Mutex::new(Counters::default());
    let jobs: Vec<(usize, bool, bool)> = (0..nn).flat_map(|i| [(i, false, false), (i, false, true), (i, true, false)]).collect();
    par_for(jobs.len(), |j| {
        let (i, d, r) = jobs[j];
        let _ = on_fresh_thread_scoped(seed, || {
            let b = build_named(i, d, r);
            let mut c = Counters::default();
            let mut k = check_reproducible(&b, rec, &mut c, &p);
            k += check_chain_reproducible(&b, rec, &mut c, if tier == "quick" { 5 } else { 12 });
            c.addn("named_calls", k);
            c.inc("named_graphs");
            named_tot.lock().unwrap().merge(&c);
        });
    });
    for f in c17_families(tier) {
        for_each_graph(&f, seed, deadline, &stats, |b, c| check_reproducible(b, rec, c, &p));
    }
    {
        // inexact weights on real hash orders (every graph of the family x 2 seeds x several hash-key environments)
        let envs = if tier == "quick" { 6 } else { 12 };
        let mut fams = vec![fam(US, 3, "wf", &ORD_ONE), fam(US, 4, "winf", &ORD_ONE), fam(DS, 3, if tier == "quick" { "wf2" } else { "wf" }, &ORD_ONE), fam(US, 4, if tier == "quick" { "wf2" } else { "wf" }, &ORD_ONE)];
        if tier != "quick" {
            fams.push(fam(US, 4, "wmax", &ORD_ONE));
            fams.push(fam(DS, 3, "winf", &ORD_ONE));
        }
        if tier != "quick" {
            fams.push(fam(USL, 3, "wf", &ORD_ONE));
            fams.push(fam(UM, 3, "wf", &ORD_ONE));
        }
        for mut f in fams {
            f.min_edges = 2;
            for_each_graph(&f, seed, deadline, &stats, |b, c| check_free_reproducible(b, rec, c, envs));
        }
        {
            // medium inputs with inexact sums: nearly equal weights around 1 and the same scaled to whole numbers
            // around 2^53, on real hash orders
            let mut med: Vec<Built> = crate::c13::medium_inputs(tier).into_iter().filter(|b| b.case.starts_with("custom:gnpulp")).collect();
            med.extend(crate::c13::big_whole_inputs(tier));
            med.extend(crate::c13::infinite_weight_inputs(tier));
            let stride = if tier == "quick" { 3 } else { 1 };
            let med: Vec<Built> = med.into_iter().enumerate().filter(|(i, _)| i % stride == 0).map(|x| x.1).collect();
            let tot = std::sync::Mutex::new(Counters::default());
            par_for(med.len(), |i| {
                if Instant::now() > deadline {
                    stats.capped.store(true, std::sync::atomic::Ordering::Relaxed);
                    return;
                }
                let mut c = Counters::default();
                check_free_reproducible(&med[i], rec, &mut c, envs.min(5));
                c.inc("medium_inexact_weight_graphs");
                tot.lock().unwrap().merge(&c);
            });
            stats.counters.lock().unwrap().merge(&tot.into_inner().unwrap());
        }
        {
            let hubs = hub_inputs();
            let ph = Params { bound: 1, budget: if tier == "quick" { 300 } else { 5_000 }, seeds: vec![0, 1, 2], float_sites: false };
            let tot = std::sync::Mutex::new(Counters::default());
            par_for(hubs.len(), |i| {
                if Instant::now() > deadline {
                    stats.capped.store(true, std::sync::atomic::Ordering::Relaxed);
                    return;
                }
                let _ = on_fresh_thread_scoped(seed, || {
                    let mut c = Counters::default();
                    check_reproducible(&hubs[i], rec, &mut c, &ph);
                    c.inc("hub_graphs");
                    tot.lock().unwrap().merge(&c);
                });
            });
            stats.counters.lock().unwrap().merge(&tot.into_inner().unwrap());
        }
        {
            // sparse 5-node graphs over {1, 2, +inf}: a node with a light, a heavy and an "infinite" neighbourhood
            // (NaN gain) needs five nodes and three weight levels
            let mut f = fam(US, 5, "w12inf", &ORD_ONE);
            f.min_edges = 4;
            f.max_edges = if tier == "quick" { 4 } else { 5 };
            // explored at the order seams (every permutation of the candidate communities at each visit), not sampled
            let pi = Params { bound: 1, budget: if tier == "quick" { 200 } else { 5_000 }, seeds: vec![0, 1], float_sites: false };
            for_each_graph(&f, seed, deadline, &stats, |b, c| check_reproducible(b, rec, c, &pi));
        }
        for mut f in [fam(US, 4, "u", &ORD_ONE), fam(DS, 3, "u", &ORD_ONE), fam(US, 3, "w12", &ORD_ONE)] {
            f.min_edges = 2;
            for_each_graph(&f, seed, deadline, &stats, |b, c| check_chain_reproducible(b, rec, c, envs.min(4)));
        }
    }
    if tier != "quick" {
        // inexact weights: the order of the per-community weight sums is a choice point too
        let pf = Params { bound: 2, budget: 20_000, seeds: vec![0, 1], float_sites: true };
        for mut f in [fam(US, 3, "wf", &ORD_ONE), fam(US, 4, "wf", &ORD_ONE), fam(DS, 3, "wf", &ORD_ONE)] {
            f.min_edges = 1;
            for_each_graph(&f, seed, deadline, &stats, |b, c| check_reproducible(b, rec, c, &pf));
        }
    }
    fill_e2_coverage(&mut out, &stats);
    for (k, v) in &named_tot.lock().unwrap().0 {
        out.add(k, *v);
    }
    out.set("input_graphs", out.get("states") + out.get("named_graphs"));
    out.set("states", out.get("executions"));
    out.set("transitions", out.get("choice_points").max(1));
    out.set("traces_validated_against_impl", out.get("executions"));
    out.set("evaluations", out.get("executions"));
    out.set("deviation_bound", p.bound as u64);
    out.set("distinct_nontrivial", out.get("inputs_with_choice_points"));
    out.set("distinct_outcomes_per_input_expected", 1u64);
    environment_sweep(tier, rec, &mut out);
    deterministic_sweep(tier, rec, &mut out);
    out.set("rule", "deciding part: louvain_partitions with a seed on tie-rich graphs (paths P2..P8, cycles C3..C8, K4, K3,3, cube, two joined triangles, directed variants; all undirected graphs n<=4/5 and digraphs n<=3/4; weights {1,2}; thorough: inexact weights {0.1,0.2,0.3} with the weight-sum order as an additional choice point) x seeds x weighted flag; E3 explores the iteration order of the candidate-community map at every visit (all permutations per point, deviation bound as reported) and the set of distinct results over all explored orders must be a singleton. states = executions, transitions = choice points answered. Supplementary, sampled and labelled as such: the same calls on real hash orders under several hash-key environments and rayon pool sizes; fast_gnp with a seed likewise; every non-randomised algorithm on small graphs under several hash environments");
    for k in ["executions", "inputs_with_choice_points", "named_graphs"] {
        out.require_nonzero(k);
    }
    if out.get("unexplained_choice_replay_divergences") > 0 {
        out.machinery_errors.push("choice replay diverged (uncontrolled nondeterminism) but free-running results agree: cannot decide".into());
    }
    out.assumptions = vec![
        "hash-map sites without a seam (edge order during graph aggregation, degree and modularity sums) affect only float addition order; with integer weights those sums are exact, with inexact weights they are covered by the sampled hash environments only".into(),
        "different processes = different hash keys: modelled by fresh threads with harness-chosen keys (interposed getrandom)".into(),
    ];
    out
}

pub fn replay(case: &str, rec: &Recorder) -> bool {
    let seed = std::env::var("VERIF_SEED").ok().and_then(|s| s.parse().ok()).unwrap_or(0);
    let p = params("thorough");
    if case.starts_with("named:") {
        let q: Vec<&str> = case.split('|').next().unwrap().split(':').collect();
        let (i, d, r): (usize, bool, bool) = (q[2].parse().unwrap_or(0), q[3] == "1", q[4] == "1");
        let _ = on_fresh_thread_scoped(seed, || {
            let b = build_named(i, d, r);
            println!("{}", b.describe());
            let mut c = Counters::default();
            if case.contains("|chain:") {
                check_chain_reproducible(&b, rec, &mut c, 12);
            } else {
                check_reproducible(&b, rec, &mut c, &p);
            }
        });
        return rec.has_any();
    }
    if case.starts_with("custom:") {
        let label = case.split('|').next().unwrap_or("");
        let mut all = crate::c13::medium_inputs("thorough");
        for b in hub_inputs() {
            if b.case == label {
                println!("{}", b.describe());
                let mut c = Counters::default();
                let ph = Params { bound: 1, budget: 5_000, seeds: vec![0, 1, 2], float_sites: false };
                let _ = on_fresh_thread_scoped(seed, || check_reproducible(&b, rec, &mut c, &ph));
                return rec.has_any();
            }
        }
        all.extend(crate::c13::big_whole_inputs("thorough"));
        all.extend(crate::c13::infinite_weight_inputs("thorough"));
        for b in all {
            if b.case == label {
                println!("{}", b.describe());
                let mut c = Counters::default();
                check_free_reproducible(&b, rec, &mut c, 12);
                return rec.has_any();
            }
        }
        return false;
    }
    if case.starts_with("env:") {
        let mut out = RunOutput::new("model_checking");
        environment_sweep("thorough", rec, &mut out);
        return rec.has_any();
    }
    if case.contains("|det:") {
        let mut out = RunOutput::new("model_checking");
        deterministic_sweep("thorough", rec, &mut out);
        return rec.has_any();
    }
    if let Some((f, idx, no, eo, _)) = parse_case(case) {
        let _ = on_fresh_thread_scoped(seed, || {
            let b = build(&f, idx, no, eo);
            println!("{}", b.describe());
            let mut c = Counters::default();
            let pf = Params { bound: 2, budget: 20_000, seeds: vec![0, 1, 2], float_sites: f.walpha == "wf" };
            if case.contains("|chain:") {
                check_chain_reproducible(&b, rec, &mut c, 12);
                return;
            }
            if case.contains("|free:") {
                check_free_reproducible(&b, rec, &mut c, 12);
                return;
            }
            check_reproducible(&b, rec, &mut c, if f.walpha == "wf" { &pf } else { &p });
        });
    }
    rec.has_any()
}
