//! E3 — stateless choice-point explorer (iterative deviation bounding) over the order seam of
//! graphrs::verif_hooks: every hash-map iteration order that carries a seam becomes a choice.
#![allow(dead_code)]

use graphrs::verif_hooks;
use std::cell::RefCell;
use std::rc::Rc;

pub fn factorial(n: usize) -> u64 {
    (1..=n as u64).product::<u64>().max(1)
}

/// idx-th permutation of 0..n in lexicographic order (0 = identity)
pub fn perm_from_index(n: usize, mut idx: u64) -> Vec<usize> {
    let mut items: Vec<usize> = (0..n).collect();
    let mut out = Vec::with_capacity(n);
    for k in (0..n).rev() {
        let f = factorial(k);
        let i = (idx / f) as usize;
        idx %= f;
        out.push(items.remove(i));
    }
    out
}

#[derive(Clone, Debug, PartialEq)]
pub struct Point {
    pub site: &'static str,
    pub arity: usize,
    pub choice: u64,
}

thread_local! {
    /// number of non-trivial choice points answered so far in the current execution (read by observers)
    pub static POINT_COUNT: std::cell::Cell<usize> = const { std::cell::Cell::new(0) };
}

#[derive(Default)]
struct ChState {
    prefix: Vec<u64>,
    points: Vec<Point>,
    /// sites that are held at the identity order (not choice points)
    ignore: Vec<&'static str>,
    diverged: Option<String>,
}

/// Runs `f` with the order chooser installed: the i-th non-trivial choice point takes `prefix[i]`
/// (index of a permutation), later ones take 0 (canonical sorted order). Returns the points seen.
/// Choice points of arity <= 1 are not recorded (nothing to choose).
pub fn run_with_choices<R>(prefix: &[u64], ignore_sites: &[&'static str], f: impl FnOnce() -> R) -> (R, Vec<Point>, Option<String>) {
    let st = Rc::new(RefCell::new(ChState { prefix: prefix.to_vec(), points: vec![], ignore: ignore_sites.to_vec(), diverged: None }));
    let st2 = st.clone();
    POINT_COUNT.with(|c| c.set(0));
    verif_hooks::set_chooser(Some(Box::new(move |site, n| {
        let mut s = st2.borrow_mut();
        if n <= 1 || s.ignore.contains(&site) {
            return (0..n).collect();
        }
        let i = s.points.len();
        let mut choice = if i < s.prefix.len() { s.prefix[i] } else { 0 };
        if choice >= factorial(n) {
            s.diverged = Some(format!("choice {choice} out of range at point {i} (site {site}, arity {n})"));
            choice = 0;
        }
        s.points.push(Point { site, arity: n, choice });
        POINT_COUNT.with(|c| c.set(s.points.len()));
        perm_from_index(n, choice)
    })));
    struct Uninstall;
    impl Drop for Uninstall {
        fn drop(&mut self) {
            verif_hooks::set_chooser(None);
        }
    }
    let _u = Uninstall;
    let r = f();
    drop(_u);
    let s = st.borrow();
    let mut div = s.diverged.clone();
    if div.is_none() && s.points.len() < s.prefix.len() {
        div = Some(format!("execution ended after {} choice points but the prefix has {}", s.points.len(), s.prefix.len()));
    }
    (r, s.points.clone(), div)
}

pub struct ExploreStats {
    pub executions: u64,
    pub choice_points: u64,
    pub max_points: usize,
    pub truncated: bool,
    pub divergences: u64,
}

/// Depth-first exploration of all choice sequences with at most `bound` deviations from the
/// default (0); `run(prefix)` executes once and returns (points, stop) where stop=true aborts.
/// `budget` caps the number of executions (reported as truncated).
pub fn explore(bound: usize, budget: u64, run: &mut dyn FnMut(&[u64]) -> (Vec<Point>, Option<String>)) -> ExploreStats {
    let mut st = ExploreStats { executions: 0, choice_points: 0, max_points: 0, truncated: false, divergences: 0 };
    fn rec(prefix: Vec<u64>, devs: usize, bound: usize, budget: u64, run: &mut dyn FnMut(&[u64]) -> (Vec<Point>, Option<String>), st: &mut ExploreStats) {
        if st.executions >= budget {
            st.truncated = true;
            return;
        }
        let (points, div) = run(&prefix);
        st.executions += 1;
        st.choice_points += points.len() as u64;
        st.max_points = st.max_points.max(points.len());
        if div.is_some() {
            st.divergences += 1;
            return;
        }
        if devs >= bound {
            return;
        }
        for i in prefix.len()..points.len() {
            let alts = factorial(points[i].arity);
            for alt in 1..alts {
                let mut p: Vec<u64> = points[..i].iter().map(|x| x.choice).collect();
                p.push(alt);
                rec(p, devs + 1, bound, budget, run, st);
                if st.truncated {
                    return;
                }
            }
        }
    }
    rec(vec![], 0, bound, budget, run, &mut st);
    st
}
