//! Shared machinery: hash-seed interposition, guarded execution, violation
//! recording with known-findings matching, replay files, evidence writer,
//! a tiny parallel driver.
#![allow(dead_code)]

use serde_json::{json, Map, Value};
use std::cell::{Cell, RefCell};
use std::collections::BTreeMap;
use std::panic::{catch_unwind, AssertUnwindSafe};
use std::sync::atomic::{AtomicUsize, Ordering};
use std::sync::Mutex;
use std::time::Instant;

// ---------------------------------------------------------------------------
// Hash-seed ownership: std (RandomState), rand::thread_rng and getrandom all
// obtain their entropy through the libc symbol `getrandom`; defining it here
// makes every hash-map iteration order inside graphrs a pure function of the
// harness-chosen per-thread seed.
// ---------------------------------------------------------------------------

thread_local! {
    static HASH_SEED: Cell<u64> = const { Cell::new(0) };
    static HASH_CTR: Cell<u64> = const { Cell::new(0) };
}

fn splitmix64(x: &mut u64) -> u64 {
    *x = x.wrapping_add(0x9E37_79B9_7F4A_7C15);
    let mut z = *x;
    z = (z ^ (z >> 30)).wrapping_mul(0xBF58_476D_1CE4_E5B9);
    z = (z ^ (z >> 27)).wrapping_mul(0x94D0_49BB_1331_11EB);
    z ^ (z >> 31)
}

/// # Safety
/// called by libc users with a valid buffer of `len` bytes.
#[no_mangle]
pub unsafe extern "C" fn getrandom(buf: *mut u8, len: usize, _flags: u32) -> isize {
    let seed = HASH_SEED.with(|s| s.get());
    let ctr = HASH_CTR.with(|c| {
        let v = c.get();
        c.set(v + 1);
        v
    });
    let mut st = seed ^ ctr.wrapping_mul(0xD134_2543_DE82_EF95) ^ 0x5851_F42D_4C95_7F2D;
    let mut i = 0;
    while i < len {
        let w = splitmix64(&mut st).to_le_bytes();
        let mut k = 0;
        while k < 8 && i < len {
            *buf.add(i) = w[k];
            i += 1;
            k += 1;
        }
    }
    len as isize
}

/// Runs `f` on a fresh OS thread whose hash keys derive from `hash_seed`.
/// Panics inside `f` are caught and returned.
pub fn on_fresh_thread<R: Send + 'static>(
    hash_seed: u64,
    f: impl FnOnce() -> R + Send + 'static,
) -> Result<R, PanicInfo> {
    let h = std::thread::Builder::new()
        .stack_size(16 << 20)
        .spawn(move || {
            HASH_SEED.with(|s| s.set(hash_seed));
            HASH_CTR.with(|c| c.set(0));
            guarded(f)
        })
        .expect("spawn");
    match h.join() {
        Ok(r) => r,
        Err(_) => Err(PanicInfo {
            msg: "thread died outside guarded()".into(),
            file: String::new(),
            line: 0,
            text: String::new(),
        }),
    }
}

/// Same, for closures borrowing from the caller.
pub fn on_fresh_thread_scoped<R: Send>(hash_seed: u64, f: impl FnOnce() -> R + Send) -> Result<R, PanicInfo> {
    std::thread::scope(|sc| {
        let h = std::thread::Builder::new()
            .stack_size(16 << 20)
            .spawn_scoped(sc, move || {
                HASH_SEED.with(|s| s.set(hash_seed));
                HASH_CTR.with(|c| c.set(0));
                guarded(f)
            })
            .expect("spawn");
        match h.join() {
            Ok(r) => r,
            Err(_) => Err(PanicInfo { msg: "thread died outside guarded()".into(), file: String::new(), line: 0, text: String::new() }),
        }
    })
}

/// Self-test: the harness owns hash orders (same seed => same order, seeds differ => orders differ).
pub fn hash_ownership_selftest() -> Result<(), String> {
    fn order(seed: u64) -> Vec<u32> {
        on_fresh_thread(seed, || {
            let hs: std::collections::HashSet<u32> = (0..64).collect();
            hs.into_iter().collect::<Vec<u32>>()
        })
        .unwrap()
    }
    let a = order(1);
    let b = order(1);
    let c = order(2);
    let d = order(3);
    if a != b {
        return Err("same hash seed gave different iteration orders: getrandom interposition is not effective".into());
    }
    if a == c && a == d {
        return Err("different hash seeds gave identical iteration orders: getrandom interposition is not effective".into());
    }
    Ok(())
}

// ---------------------------------------------------------------------------
// Guarded execution
// ---------------------------------------------------------------------------

#[derive(Clone, Debug)]
pub struct PanicInfo {
    pub msg: String,
    pub file: String,
    pub line: u32,
    /// trimmed source text of the panicking line (robust against line shifts)
    pub text: String,
}

impl PanicInfo {
    pub fn site(&self) -> String {
        format!("{}: {}", self.file, self.text)
    }
    pub fn is_overflow(&self) -> bool {
        self.msg.contains("overflow") || self.msg.contains("divide by zero")
    }
}

thread_local! {
    static LAST_PANIC: RefCell<Option<PanicInfo>> = const { RefCell::new(None) };
    static QUIET: Cell<bool> = const { Cell::new(false) };
}

/// Marker payload used by observers to stop a run at its horizon (not a library panic).
pub struct StopRun(pub String);

pub fn install_panic_hook() {
    let default = std::panic::take_hook();
    std::panic::set_hook(Box::new(move |info| {
        let quiet = QUIET.with(|q| q.get());
        if !quiet {
            default(info);
            return;
        }
        let msg = if let Some(s) = info.payload().downcast_ref::<&str>() {
            s.to_string()
        } else if let Some(s) = info.payload().downcast_ref::<String>() {
            s.clone()
        } else if info.payload().downcast_ref::<StopRun>().is_some() {
            "<<StopRun>>".to_string()
        } else {
            "<non-string panic payload>".to_string()
        };
        let (file, line) = info.location().map(|l| (l.file().to_string(), l.line())).unwrap_or_default();
        LAST_PANIC.with(|p| *p.borrow_mut() = Some(PanicInfo { msg, file, line, text: String::new() }));
    }));
}

fn source_text(file: &str, line: u32) -> String {
    // panic locations inside graphrs are relative to /repo (path dependency => "src/...") or absolute
    let cands = [file.to_string(), format!("/repo/{}", file)];
    for c in cands.iter() {
        if let Ok(s) = std::fs::read_to_string(c) {
            if let Some(l) = s.lines().nth(line.saturating_sub(1) as usize) {
                return l.trim().to_string();
            }
        }
    }
    String::new()
}

pub fn normalize_file(file: &str) -> String {
    if let Some(i) = file.find("/repo/") {
        return file[i + 6..].to_string();
    }
    if let Some(i) = file.find("/.cargo/registry/src/") {
        let rest = &file[i + 21..];
        if let Some(j) = rest.find('/') {
            return format!("<dep>/{}", &rest[j + 1..]);
        }
    }
    if let Some(i) = file.find("/rustc/") {
        let rest = &file[i + 7..];
        if let Some(j) = rest.find('/') {
            return format!("<std>/{}", &rest[j + 1..]);
        }
    }
    file.to_string()
}

/// Runs `f`, catching panics silently and returning message and location.
pub fn guarded<R>(f: impl FnOnce() -> R) -> Result<R, PanicInfo> {
    let prev = QUIET.with(|q| q.replace(true));
    LAST_PANIC.with(|p| *p.borrow_mut() = None);
    let r = catch_unwind(AssertUnwindSafe(f));
    QUIET.with(|q| q.set(prev));
    match r {
        Ok(v) => Ok(v),
        Err(payload) => {
            let mut info = LAST_PANIC.with(|p| p.borrow_mut().take()).unwrap_or(PanicInfo {
                msg: "<unknown panic>".into(),
                file: String::new(),
                line: 0,
                text: String::new(),
            });
            if let Some(s) = payload.downcast_ref::<StopRun>() {
                info.msg = format!("<<StopRun>>{}", s.0);
            }
            info.text = source_text(&info.file, info.line);
            info.file = normalize_file(&info.file);
            Err(info)
        }
    }
}

pub fn is_stop(p: &PanicInfo) -> Option<&str> {
    p.msg.strip_prefix("<<StopRun>>")
}

// ---------------------------------------------------------------------------
// Violations, known findings, replay files
// ---------------------------------------------------------------------------

#[derive(Clone, Debug)]
pub struct Violation {
    /// oracle clause id (stable string)
    pub clause: String,
    /// API observed
    pub call: String,
    /// case id, re-runnable by the engine that produced it
    pub case: String,
    /// human-readable expected vs actual
    pub detail: String,
    pub panic: Option<PanicInfo>,
    /// names of the closed-list predicates that hold on the failing input
    pub tags: Vec<String>,
    pub hash_seed: u64,
    /// plain #[test] reproducing the case without the explorer
    pub snippet: String,
}

impl Violation {
    pub fn new(clause: &str, call: &str, case: String, detail: String) -> Violation {
        Violation { clause: clause.into(), call: call.into(), case, detail, panic: None, tags: vec![], hash_seed: 0, snippet: String::new() }
    }
    pub fn with_panic(mut self, p: PanicInfo) -> Self {
        self.panic = Some(p);
        self
    }
    pub fn with_tags(mut self, t: Vec<String>) -> Self {
        self.tags = t;
        self
    }
    pub fn with_seed(mut self, s: u64) -> Self {
        self.hash_seed = s;
        self
    }
    pub fn with_snippet(mut self, s: String) -> Self {
        self.snippet = s;
        self
    }
    pub fn site(&self) -> Option<String> {
        self.panic.as_ref().map(|p| p.site())
    }
    fn signature(&self) -> String {
        format!("{}|{}|{}", self.clause, self.call, self.site().unwrap_or_default())
    }
}

#[derive(Clone, Debug)]
pub struct KnownFinding {
    pub property: String,
    pub status: String,
    pub clause: String,
    pub call: String,
    pub site: Option<String>,
    pub predicate: String,
    pub what: String,
    pub raw: Value,
}

pub fn load_known_findings(path: &str) -> Result<Vec<KnownFinding>, String> {
    let s = match std::fs::read_to_string(path) {
        Ok(s) => s,
        Err(_) => return Ok(vec![]),
    };
    let v: Value = serde_json::from_str(&s).map_err(|e| format!("known_findings.json: {e}"))?;
    let arr = v.as_array().ok_or("known_findings.json must be an array")?;
    let mut out = vec![];
    for e in arr {
        let g = |k: &str| e.get(k).and_then(|x| x.as_str()).map(|x| x.to_string());
        out.push(KnownFinding {
            property: g("property").ok_or("known finding without property")?,
            status: g("status").unwrap_or_else(|| "open".into()),
            clause: g("clause").unwrap_or_default(),
            call: g("call").unwrap_or_default(),
            site: g("site"),
            predicate: g("predicate").unwrap_or_default(),
            what: g("what").unwrap_or_default(),
            raw: e.clone(),
        });
    }
    Ok(out)
}

struct Group {
    first: Vec<Violation>,
    count: u64,
}

pub struct Recorder {
    pub property: &'static str,
    known: Vec<KnownFinding>,
    inner: Mutex<RecInner>,
    pub keep_per_group: usize,
}

#[derive(Default)]
struct RecInner {
    unknown: BTreeMap<String, Group>,
    order: Vec<String>,
    known_hits: BTreeMap<usize, (u64, Option<Violation>)>,
}

impl Recorder {
    pub fn new(property: &'static str, known_all: &[KnownFinding]) -> Recorder {
        let known = known_all.iter().filter(|k| k.property == property && k.status == "open").cloned().collect();
        Recorder { property, known, inner: Mutex::new(RecInner::default()), keep_per_group: 3 }
    }
    fn matches(&self, v: &Violation) -> Option<usize> {
        for (i, k) in self.known.iter().enumerate() {
            if k.clause != v.clause || k.call != v.call {
                continue;
            }
            if let Some(site) = &k.site {
                if v.site().as_deref() != Some(site.as_str()) {
                    continue;
                }
            }
            if k.predicate.is_empty() || v.tags.iter().any(|t| *t == k.predicate) {
                return Some(i);
            }
        }
        None
    }
    pub fn record(&self, v: Violation) {
        let m = self.matches(&v);
        let mut g = self.inner.lock().unwrap();
        match m {
            Some(i) => {
                let e = g.known_hits.entry(i).or_insert((0, None));
                e.0 += 1;
                if e.1.is_none() {
                    e.1 = Some(v);
                }
            }
            None => {
                let sig = v.signature();
                if !g.unknown.contains_key(&sig) {
                    g.order.push(sig.clone());
                }
                let keep = self.keep_per_group;
                let e = g.unknown.entry(sig).or_insert(Group { first: vec![], count: 0 });
                e.count += 1;
                if e.first.len() < keep {
                    e.first.push(v);
                }
            }
        }
    }
    /// removes and returns the retained violations of the unknown groups (used to re-label a nested run)
    pub fn take_all(&self) -> Vec<Violation> {
        let mut g = self.inner.lock().unwrap();
        g.order.clear();
        std::mem::take(&mut g.unknown).into_values().flat_map(|gr| gr.first).collect()
    }
    /// occurrences recorded so far under `clause` (unknown groups): lets a check stop spending its budget on a
    /// failure it has already established many times over
    pub fn occurrences(&self, clause: &str) -> u64 {
        self.inner.lock().unwrap().unknown.values().filter(|g| g.first.first().map_or(false, |v| v.clause == clause)).map(|g| g.count).sum()
    }
    pub fn unknown_count(&self) -> u64 {
        self.inner.lock().unwrap().unknown.values().map(|g| g.count).sum()
    }
    pub fn has_unknown(&self) -> bool {
        !self.inner.lock().unwrap().unknown.is_empty()
    }
    pub fn has_any(&self) -> bool {
        let g = self.inner.lock().unwrap();
        !g.unknown.is_empty() || !g.known_hits.is_empty()
    }
    /// prints every recorded group (used by replay)
    pub fn dump(&self) {
        let g = self.inner.lock().unwrap();
        for sig in &g.order {
            let grp = &g.unknown[sig];
            let v = &grp.first[0];
            println!("  violated: clause={} call={} x{}\n    {}", v.clause, v.call, grp.count, v.detail.replace('\n', "\n    "));
            if let Some(p) = &v.panic {
                println!("    panic: {} at {}:{} [{}]", p.msg, p.file, p.line, p.text);
            }
        }
        for (i, (cnt, ex)) in g.known_hits.iter() {
            let k = &self.known[*i];
            println!("  known finding reproduced: clause={} call={} predicate={} x{} :: {}", k.clause, k.call, k.predicate, cnt, ex.as_ref().unwrap().detail.replace('\n', " | "));
        }
    }
}

fn fnv(s: &str) -> u64 {
    let mut h: u64 = 0xcbf29ce484222325;
    for b in s.bytes() {
        h ^= b as u64;
        h = h.wrapping_mul(0x100000001b3);
    }
    h
}

pub fn violation_json(property: &str, tier: &str, v: &Violation) -> Value {
    json!({
        "property": property,
        "tier": tier,
        "case": v.case,
        "clause": v.clause,
        "call": v.call,
        "hash_seed": v.hash_seed,
        "detail": v.detail,
        "tags": v.tags,
        "panic": v.panic.as_ref().map(|p| json!({"msg": p.msg, "file": p.file, "line": p.line, "text": p.text})),
        "test_snippet": v.snippet,
    })
}

// ---------------------------------------------------------------------------
// Result of one property run + finalisation (prints lines, writes evidence)
// ---------------------------------------------------------------------------

pub struct RunOutput {
    pub level: &'static str,
    pub coverage: Map<String, Value>,
    pub assumptions: Vec<String>,
    /// machinery problems (vacuity, nondeterminism); any entry => exit 2
    pub machinery_errors: Vec<String>,
}

impl RunOutput {
    pub fn new(level: &'static str) -> RunOutput {
        RunOutput { level, coverage: Map::new(), assumptions: vec![], machinery_errors: vec![] }
    }
    pub fn set(&mut self, k: &str, v: impl Into<Value>) {
        self.coverage.insert(k.to_string(), v.into());
    }
    pub fn add(&mut self, k: &str, n: u64) {
        let cur = self.coverage.get(k).and_then(|v| v.as_u64()).unwrap_or(0);
        self.coverage.insert(k.to_string(), Value::from(cur + n));
    }
    pub fn get(&self, k: &str) -> u64 {
        self.coverage.get(k).and_then(|v| v.as_u64()).unwrap_or(0)
    }
    pub fn sample(&mut self, v: Value) {
        let e = self.coverage.entry("samples".to_string()).or_insert_with(|| Value::Array(vec![]));
        if let Value::Array(a) = e {
            if a.len() < 8 {
                a.push(v);
            }
        }
    }
    pub fn require_nonzero(&mut self, k: &str) {
        // a run that hit its wall cap reports what it completed (exhaustive=false); the vacuity guards
        // describe the complete enumeration and do not apply to a truncated one
        if self.coverage.get("exhaustive").and_then(|v| v.as_bool()) == Some(false) {
            return;
        }
        if self.get(k) == 0 {
            self.machinery_errors.push(format!("vacuity guard: counter `{k}` is zero"));
        }
    }
}

pub fn finalize(property: &'static str, tier: &str, seed: u64, rec: &Recorder, mut out: RunOutput, start: Instant) -> i32 {
    let g = rec.inner.lock().unwrap();
    let mut exit = 0;
    let dir = format!("/verif/replays/{property}");
    let mut n_viol: u64 = 0;
    for sig in &g.order {
        let grp = &g.unknown[sig];
        n_viol += grp.count;
        for (i, v) in grp.first.iter().enumerate() {
            let _ = std::fs::create_dir_all(&dir);
            let body = violation_json(property, tier, v);
            let path = format!("{dir}/{:016x}.json", fnv(&format!("{}|{}|{}", v.case, v.clause, v.call)));
            let _ = std::fs::write(&path, serde_json::to_string_pretty(&body).unwrap());
            if i == 0 {
                println!("VIOLATION property={property} replay={path}");
                println!("  clause={} call={} case={} ({} occurrence(s))", v.clause, v.call, v.case, grp.count);
                println!("  {}", v.detail.replace('\n', "\n  "));
                if let Some(p) = &v.panic {
                    println!("  panic: {} at {}:{} [{}]", p.msg, p.file, p.line, p.text);
                }
                if !v.tags.is_empty() {
                    println!("  tags: {}", v.tags.join(","));
                }
            }
        }
        exit = 1;
    }
    let mut known_list = vec![];
    for (i, (cnt, ex)) in g.known_hits.iter() {
        let k = &rec.known[*i];
        let ex = ex.as_ref().unwrap();
        println!(
            "KNOWN-FINDING: property={property} clause={} call={} predicate={} occurrences={} example={} :: {}",
            k.clause, k.call, k.predicate, cnt, ex.case, k.what
        );
        known_list.push(json!({"clause": k.clause, "call": k.call, "predicate": k.predicate, "occurrences": cnt, "example": ex.case}));
    }
    drop(g);
    if !known_list.is_empty() {
        out.coverage.insert("known_findings_hit".into(), Value::Array(known_list));
    }
    for m in &out.machinery_errors {
        eprintln!("MACHINERY-ERROR property={property}: {m}");
    }
    if !out.machinery_errors.is_empty() && exit == 0 {
        exit = 2;
    }
    let wall = start.elapsed().as_secs_f64();
    let ev = json!({
        "property_id": property,
        "tier": tier,
        "seed": seed,
        "level": out.level,
        "coverage": Value::Object(out.coverage.clone()),
        "assumptions": out.assumptions,
        "wall_s": (wall * 1000.0).round() / 1000.0,
        "violations": n_viol,
    });
    // GV_EVIDENCE_DIR redirects the evidence of exploratory background runs; registered commands never set it
    let evdir = std::env::var("GV_EVIDENCE_DIR").unwrap_or_else(|_| "/verif/evidence".into());
    let _ = std::fs::create_dir_all(&evdir);
    std::fs::write(format!("{evdir}/{property}.json"), serde_json::to_string_pretty(&ev).unwrap()).expect("write evidence");
    let brief: Vec<String> = out
        .coverage
        .iter()
        .filter(|(_, v)| v.is_u64() || v.is_boolean())
        .map(|(k, v)| format!("{k}={v}"))
        .collect();
    println!("{property} {tier}: exit={exit} wall={wall:.1}s {}", brief.join(" "));
    exit
}

// ---------------------------------------------------------------------------
// Parallel driver
// ---------------------------------------------------------------------------

pub fn n_workers() -> usize {
    std::env::var("GV_THREADS").ok().and_then(|s| s.parse().ok()).unwrap_or_else(|| {
        std::thread::available_parallelism().map(|n| n.get()).unwrap_or(8).min(16)
    })
}

/// Runs `f(i)` for i in 0..n on a pool of OS threads (dynamic scheduling).
/// `par_for` with an explicit number of workers
pub fn par_for_w<F: Fn(usize) + Sync>(n: usize, workers: usize, f: F) {
    let next = AtomicUsize::new(0);
    let w = workers.max(1).min(n.max(1));
    std::thread::scope(|sc| {
        for _ in 0..w {
            sc.spawn(|| loop {
                let i = next.fetch_add(1, Ordering::Relaxed);
                if i >= n {
                    break;
                }
                f(i);
            });
        }
    });
}

pub fn par_for<F: Fn(usize) + Sync>(n: usize, f: F) {
    let next = AtomicUsize::new(0);
    let w = n_workers().min(n.max(1));
    std::thread::scope(|sc| {
        for _ in 0..w {
            sc.spawn(|| loop {
                let i = next.fetch_add(1, Ordering::Relaxed);
                if i >= n {
                    break;
                }
                f(i);
            });
        }
    });
}

/// Mergeable u64 counters keyed by name (each worker owns one, merged at the end).
#[derive(Default, Clone)]
pub struct Counters(pub BTreeMap<&'static str, u64>);
impl Counters {
    pub fn inc(&mut self, k: &'static str) {
        *self.0.entry(k).or_insert(0) += 1;
    }
    pub fn addn(&mut self, k: &'static str, n: u64) {
        *self.0.entry(k).or_insert(0) += n;
    }
    pub fn merge(&mut self, o: &Counters) {
        for (k, v) in &o.0 {
            *self.0.entry(k).or_insert(0) += v;
        }
    }
    pub fn get(&self, k: &str) -> u64 {
        self.0.get(k).copied().unwrap_or(0)
    }
}

pub fn f64_bits_str(x: f64) -> String {
    if x.is_nan() {
        "NaN".into()
    } else {
        format!("{x:?}")
    }
}

pub fn wall_cap_s(tier: &str) -> f64 {
    std::env::var("GV_WALL_CAP").ok().and_then(|s| s.parse().ok()).unwrap_or(if tier == "quick" { 50.0 } else { 3000.0 })
}

// ---------------------------------------------------------------------------
// Wall-clock watchdog: a case that runs longer than the limit is a hang
// ---------------------------------------------------------------------------

pub struct Watchdog {
    slots: Mutex<std::collections::HashMap<std::thread::ThreadId, (String, Instant)>>,
}

impl Watchdog {
    /// starts the monitor thread; on a timeout it prints the VIOLATION line, writes a replay file and exits 1
    pub fn start(property: &'static str, limit_s: f64) -> std::sync::Arc<Watchdog> {
        let wd = std::sync::Arc::new(Watchdog { slots: Mutex::new(std::collections::HashMap::new()) });
        let w2 = wd.clone();
        std::thread::spawn(move || loop {
            std::thread::sleep(std::time::Duration::from_millis(500));
            let g = w2.slots.lock().unwrap();
            for (_, (case, t0)) in g.iter() {
                if t0.elapsed().as_secs_f64() > limit_s {
                    let dir = format!("/verif/replays/{property}");
                    let _ = std::fs::create_dir_all(&dir);
                    let path = format!("{dir}/{:016x}.json", fnv(case));
                    let v = Violation::new("no_hang", "watchdog", case.clone(), format!("case did not finish within {limit_s} s"));
                    let _ = std::fs::write(&path, serde_json::to_string_pretty(&violation_json(property, "watchdog", &v)).unwrap());
                    println!("VIOLATION property={property} replay={path}");
                    println!("  clause=no_hang case={case}: did not finish within {limit_s} s");
                    std::process::exit(1);
                }
            }
        });
        wd
    }
    pub fn enter(&self, case: &str) {
        self.slots.lock().unwrap().insert(std::thread::current().id(), (case.to_string(), Instant::now()));
    }
    pub fn leave(&self) {
        self.slots.lock().unwrap().remove(&std::thread::current().id());
    }
}
