//! Large-graph stage (n = 21..24, above the library's serial/parallel threshold) for the
//! definition-level checks C04, C05, C06, C18: the size-gated code paths run under real rayon and
//! are compared with polynomial oracles (Floyd-Warshall distances, shortest-path counts by DP).
#![allow(dead_code)]

#[path = "c07_inputs.rs"]
mod c07_inputs;
use crate::common::*;
use c07_inputs::{large_inputs, Input};
use graphrs::algorithms::centrality::{betweenness, closeness, eigenvector};
use graphrs::algorithms::shortest_path::dijkstra;
use graphrs::generators::random;
use graphrs::{Edge, Graph, GraphSpecs, Node};
use std::sync::Arc;

struct Dense {
    n: usize,
    directed: bool,
    /// cost[u][v] over node NAMES 0..n (names are 0..n-1)
    cost: Vec<Vec<Option<f64>>>,
    dist: Vec<Vec<Option<f64>>>,
    /// number of shortest paths
    sigma: Vec<Vec<f64>>,
}

fn dense_of(g: &Graph<i32, ()>, weighted: bool) -> Dense {
    let n = g.number_of_nodes();
    let directed = g.specs.directed;
    let mut cost: Vec<Vec<Option<f64>>> = vec![vec![None; n]; n];
    for e in g.get_all_edges() {
        let (u, v) = (e.u as usize, e.v as usize);
        if u == v {
            continue;
        }
        let c = if weighted { e.weight } else { 1.0 };
        let mut put = |a: usize, b: usize| {
            cost[a][b] = Some(cost[a][b].map_or(c, |o: f64| o.min(c)));
        };
        put(u, v);
        if !directed {
            put(v, u);
        }
    }
    let mut dist = cost.clone();
    for u in 0..n {
        dist[u][u] = Some(0.0);
    }
    for k in 0..n {
        for i in 0..n {
            for j in 0..n {
                if let (Some(a), Some(b)) = (dist[i][k], dist[k][j]) {
                    if dist[i][j].map_or(true, |c| a + b < c) {
                        dist[i][j] = Some(a + b);
                    }
                }
            }
        }
    }
    // sigma by DP in order of increasing distance (positive weights)
    let mut sigma = vec![vec![0.0f64; n]; n];
    for s in 0..n {
        let mut order: Vec<usize> = (0..n).filter(|&t| dist[s][t].is_some()).collect();
        order.sort_by(|a, b| dist[s][*a].unwrap().partial_cmp(&dist[s][*b].unwrap()).unwrap());
        sigma[s][s] = 1.0;
        for &t in &order {
            if t == s {
                continue;
            }
            let mut c = 0.0;
            for u in 0..n {
                if u == t {
                    continue;
                }
                if let (Some(du), Some(w)) = (dist[s][u], cost[u][t]) {
                    if du + w == dist[s][t].unwrap() {
                        c += sigma[s][u];
                    }
                }
            }
            sigma[s][t] = c;
        }
    }
    Dense { n, directed, cost, dist, sigma }
}

fn extra_inputs() -> Vec<Input> {
    // asymmetric digraphs with a sink at a low index and reciprocal pairs of different weight
    let mut v = vec![];
    for weighted in [false, true] {
        let n = 23;
        let mut g: Graph<i32, ()> = Graph::new(GraphSpecs::directed());
        for i in 0..n {
            g.add_node(Node::from_name(i));
        }
        let mut add = |u: i32, w: i32, wt: f64| {
            let _ = g.add_edge(Arc::new(Edge { u, v: w, weight: if weighted { wt } else { f64::NAN }, attributes: None }));
        };
        // node 1 is a sink (no successors), node 2 isolated; a ring with chords elsewhere
        for i in 3..n {
            let j = if i + 1 < n { i + 1 } else { 3 };
            add(i, j, 1.0 + (i % 3) as f64);
            add(j, i, 4.0 - (i % 3) as f64);
            if i % 4 == 0 {
                add(i, 3 + (i * 7) % (n - 3), 2.0);
            }
        }
        add(5, 1, 1.0);
        add(9, 1, 2.0);
        add(0, 4, 1.0);
        v.push(Input { name: format!("ring-with-sink23/directed/{}", if weighted { "w" } else { "u" }), g, weighted });
        let es = random::fast_gnp_random_graph(26, 0.12, true, Some(7)).unwrap();
        let mut g2: Graph<i32, ()> = Graph::new(GraphSpecs::directed());
        for i in 0..26 {
            g2.add_node(Node::from_name(i));
        }
        let mut pairs: Vec<(i32, i32)> = es.get_all_edges().iter().map(|e| (e.u, e.v)).collect();
        pairs.sort();
        for (u, w) in pairs {
            let _ = g2.add_edge(Arc::new(Edge { u, v: w, weight: if weighted { 1.0 + ((u * 3 + w * 5) % 4) as f64 } else { f64::NAN }, attributes: None }));
        }
        v.push(Input { name: format!("gnp(26,0.12,directed,seed 7)/{}", if weighted { "w" } else { "u" }), g: g2, weighted });
    }
    v
}

fn inputs(tier: &str) -> Vec<Input> {
    // the polynomial oracles are cubic: graphs up to 130 nodes
    let mut v: Vec<Input> = large_inputs(tier).into_iter().filter(|i| i.g.number_of_nodes() <= 130 && !i.name.starts_with("neg-") && !i.name.starts_with("zero-")).collect();
    v.extend(extra_inputs());
    v
}

/// graphs with astronomically many equally short paths between two nodes (a chain of k diamonds has 2^k):
/// path COUNTS beyond 2^32 / 2^53 / 2^64 - only for the functions that count paths without listing them
fn tie_rich_inputs() -> Vec<Input> {
    let mut v = vec![];
    for (k, directed, weighted) in [(70usize, true, false), (70, false, true), (34, true, true)] {
        let n = 3 * k + 1;
        let mut g: Graph<i32, ()> = Graph::new(if directed { GraphSpecs::directed() } else { GraphSpecs::undirected() });
        for i in (0..n as i32).rev() {
            g.add_node(Node::from_name(i));
        }
        let w = if weighted { 2.0 } else { f64::NAN };
        for d in 0..k as i32 {
            let (a, top, bot, z) = (3 * d, 3 * d + 1, 3 * d + 2, 3 * d + 3);
            for (x, y) in [(a, top), (a, bot), (top, z), (bot, z)] {
                g.add_edge(Arc::new(Edge { u: x, v: y, weight: w, attributes: None })).expect("ladder");
            }
        }
        v.push(Input { name: format!("diamond-ladder{k}/{}/{}", if directed { "directed" } else { "undirected" }, if weighted { "w" } else { "u" }), g, weighted });
    }
    v
}

fn inputs_counting(tier: &str) -> Vec<Input> {
    let mut v = inputs(tier);
    v.extend(tie_rich_inputs());
    v
}

fn close(a: f64, b: f64) -> bool {
    (a - b).abs() <= 1e-9 * a.abs().max(b.abs()).max(1.0)
}

pub fn c04_large(tier: &str, rec: &Recorder, c: &mut Counters) {
    for inp in inputs(tier) {
        for weighted in if inp.weighted { vec![true, false] } else { vec![false] } {
            let d = dense_of(&inp.g, weighted);
            let n = d.n;
            let case = format!("L:{}|w={weighted}", inp.name);
            let mk = |clause: &str, call: &str, detail: String| Violation::new(clause, call, format!("{case}|{call}"), format!("large graph {} (n={n}), weighted={weighted}\n{detail}", inp.name)).with_tags(vec!["large_graph_parallel_path".into()]);
            for (label, first_only, target) in [("all", false, None), ("first_only", true, None), ("target", false, Some((n / 2) as i32)), ("target_first_only", true, Some(1))] {
                c.inc("large_graph_calls");
                let call = "dijkstra::all_pairs";
                match guarded(|| dijkstra::all_pairs(&inp.g, weighted, target, None, first_only, true)) {
                    Err(pi) => rec.record(mk("no_panic", call, format!("{label}: {}", pi.msg)).with_panic(pi)),
                    Ok(Err(e)) => rec.record(mk("unexpected_error", call, format!("{label}: Err({:?})", e.kind))),
                    Ok(Ok(m)) => {
                        if m.len() != n {
                            rec.record(mk("sources", call, format!("{label}: {} sources for {n} nodes", m.len())));
                        }
                        for (s, hm) in &m {
                            let su = *s as usize;
                            for t in 0..n {
                                let got = hm.get(&(t as i32));
                                let exp = d.dist[su][t];
                                if let Some(tt) = target {
                                    // with a target only that entry is guaranteed; others must be unchanged if present
                                    if t as i32 == tt && exp.is_some() && got.is_none() {
                                        rec.record(mk("missing_reachable", call, format!("{label}: source {s}: target {t} at distance {} is not reported", exp.unwrap())));
                                        continue;
                                    }
                                } else if exp.is_some() != got.is_some() {
                                    rec.record(mk(if exp.is_some() { "missing_reachable" } else { "reported_unreachable" }, call, format!("{label}: source {s} target {t}: reported={} reachable={}", got.is_some(), exp.is_some())));
                                    continue;
                                }
                                if let (Some(spi), Some(e)) = (got, exp) {
                                    if spi.distance != e {
                                        rec.record(mk("distance", call, format!("{label}: d({s},{t}) = {}, true shortest length {e}", spi.distance)));
                                        continue;
                                    }
                                    for p in &spi.paths {
                                        let ok = p.first() == Some(s) && p.last() == Some(&(t as i32));
                                        let mut len = Some(0.0);
                                        for w in p.windows(2) {
                                            len = match (len, d.cost[w[0] as usize][w[1] as usize]) {
                                                (Some(l), Some(x)) => Some(l + x),
                                                _ => None,
                                            };
                                        }
                                        if !ok || len != Some(e) {
                                            rec.record(mk("path_invalid", call, format!("{label}: path {p:?} for {s}->{t} has length {len:?}, distance {e}")));
                                        }
                                    }
                                    let mut sorted = spi.paths.clone();
                                    sorted.sort();
                                    sorted.dedup();
                                    if sorted.len() != spi.paths.len() {
                                        rec.record(mk("path_set", call, format!("{label}: {s}->{t}: a path is listed twice")));
                                    }
                                    let want = if first_only { 1.0 } else { d.sigma[su][t] };
                                    if spi.paths.len() as f64 != want {
                                        rec.record(mk(if first_only { "first_only" } else { "path_set" }, call, format!("{label}: {s}->{t}: {} paths returned, the number of shortest paths is {}", spi.paths.len(), d.sigma[su][t])));
                                    }
                                }
                            }
                        }
                    }
                }
            }
        }
    }
}

/// Long paths, beyond every block size and beyond the exact range of narrow accumulators: a path 0-1-...-(n-1) has closed
/// forms for both centralities, so the oracle costs nothing and n can be in the thousands (the dense oracle above is cubic).
fn long_path(n: i32, directed: bool) -> Graph<i32, ()> {
    let mut g: Graph<i32, ()> = Graph::new(if directed { GraphSpecs::directed() } else { GraphSpecs::undirected() });
    for i in 0..n {
        g.add_node(Node::from_name(i));
    }
    for i in 0..n - 1 {
        let _ = g.add_edge(Arc::new(Edge { u: i, v: i + 1, weight: f64::NAN, attributes: None }));
    }
    g
}
fn rel_close(a: f64, b: f64) -> bool {
    a == b || (a - b).abs() <= 1e-9 * a.abs().max(b.abs())
}
const LONG_PATH_BC: i32 = 2100;
const LONG_PATH_CC: i32 = 6000;
pub fn long_path_stage(which: &str, rec: &Recorder, c: &mut Counters) {
    for directed in [true, false] {
        let kind = if directed { "directed" } else { "undirected" };
        if which == "C05" {
            let n = LONG_PATH_BC;
            let g = long_path(n, directed);
            for normalized in [false, true] {
                c.inc("long_path_calls");
                let case = format!("L:path{n}/{kind}|bc:w=false:norm={normalized}");
                let mk = |clause: &str, detail: String| Violation::new(clause, "betweenness_centrality", case.clone(), format!("{kind} path 0-1-...-{} (n={n}), weighted=false normalized={normalized}\n{detail}", n - 1)).with_tags(vec!["long_path".into()]);
                match guarded(|| betweenness::betweenness_centrality(&g, false, normalized)) {
                    Err(pi) => rec.record(mk("no_panic", pi.msg.clone()).with_panic(pi)),
                    Ok(Err(e)) => rec.record(mk("unexpected_error", format!("Err({:?})", e.kind))),
                    Ok(Ok(m)) => {
                        if m.len() != n as usize {
                            rec.record(mk("one_entry_per_node", format!("{} entries", m.len())));
                        }
                        let mut bad = 0;
                        for (k, got) in &m {
                            let i = *k as f64;
                            let nn = n as f64;
                            // ordered pairs (s,t) with s < i < t; an undirected path counts each pair in both directions
                            let ordered = i * (nn - 1.0 - i) * if directed { 1.0 } else { 2.0 };
                            let exp = if normalized { ordered / ((nn - 1.0) * (nn - 2.0)) } else if directed { ordered } else { ordered * 0.5 };
                            if !rel_close(*got, exp) {
                                bad += 1;
                                if bad <= 3 {
                                    rec.record(mk("value", format!("betweenness[{k}] = {got}, definition gives {exp}")));
                                }
                            }
                        }
                    }
                }
            }
        } else {
            let n = LONG_PATH_CC;
            let g = long_path(n, directed);
            for wf in [false, true] {
                c.inc("long_path_calls");
                let case = format!("L:path{n}/{kind}|cc:w=false:wf={wf}");
                let mk = |clause: &str, detail: String| Violation::new(clause, "closeness_centrality", case.clone(), format!("{kind} path 0-1-...-{} (n={n}), weighted=false wf_improved={wf}\n{detail}", n - 1)).with_tags(vec!["long_path".into()]);
                match guarded(|| closeness::closeness_centrality(&g, false, wf)) {
                    Err(pi) => rec.record(mk("no_panic", pi.msg.clone()).with_panic(pi)),
                    Ok(Err(e)) => rec.record(mk("unexpected_error", format!("Err({:?})", e.kind))),
                    Ok(Ok(m)) => {
                        if m.len() != n as usize {
                            rec.record(mk("one_entry_per_node", format!("{} entries", m.len())));
                        }
                        let mut bad = 0;
                        for (k, got) in &m {
                            let i = *k as f64;
                            let nn = n as f64;
                            // nodes that reach i: 0..i at distances i-j (directed), and also i+1..n at distances j-i (undirected)
                            let below = i * (i + 1.0) / 2.0;
                            let above = (nn - 1.0 - i) * (nn - i) / 2.0;
                            let (kk, tot) = if directed { (i, below) } else { (nn - 1.0, below + above) };
                            let exp = if kk == 0.0 { 0.0 } else { (kk / tot) * if wf { kk / (nn - 1.0) } else { 1.0 } };
                            if !rel_close(*got, exp) {
                                bad += 1;
                                if bad <= 3 {
                                    rec.record(mk("value", format!("closeness[{k}] = {got}, definition gives {exp}")));
                                }
                            }
                        }
                    }
                }
            }
        }
    }
}

pub fn c05_large(tier: &str, rec: &Recorder, c: &mut Counters) {
    long_path_stage("C05", rec, c);
    for inp in inputs_counting(tier) {
        for weighted in if inp.weighted { vec![true, false] } else { vec![false] } {
            let d = dense_of(&inp.g, weighted);
            let n = d.n;
            let mut b = vec![0.0f64; n];
            for s in 0..n {
                for t in 0..n {
                    if s == t || d.dist[s][t].is_none() {
                        continue;
                    }
                    for v in 0..n {
                        if v == s || v == t {
                            continue;
                        }
                        if let (Some(a), Some(z)) = (d.dist[s][v], d.dist[v][t]) {
                            if a + z == d.dist[s][t].unwrap() {
                                b[v] += d.sigma[s][v] * d.sigma[v][t] / d.sigma[s][t];
                            }
                        }
                    }
                }
            }
            for normalized in [false, true] {
                c.inc("large_graph_calls");
                let case = format!("L:{}|bc:w={weighted}:norm={normalized}", inp.name);
                let mk = |clause: &str, detail: String| Violation::new(clause, "betweenness_centrality", case.clone(), format!("large graph {} (n={n}), weighted={weighted} normalized={normalized}\n{detail}", inp.name)).with_tags(vec!["large_graph_parallel_path".into()]);
                match guarded(|| betweenness::betweenness_centrality(&inp.g, weighted, normalized)) {
                    Err(pi) => rec.record(mk("no_panic", pi.msg.clone()).with_panic(pi)),
                    Ok(Err(e)) => rec.record(mk("unexpected_error", format!("Err({:?})", e.kind))),
                    Ok(Ok(m)) => {
                        if m.len() != n {
                            rec.record(mk("one_entry_per_node", format!("{} entries", m.len())));
                        }
                        for (k, got) in &m {
                            let mut exp = b[*k as usize];
                            if normalized {
                                exp /= ((n - 1) * (n - 2)) as f64;
                            } else if !d.directed {
                                exp *= 0.5;
                            }
                            if !close(*got, exp) {
                                rec.record(mk("value", format!("betweenness[{k}] = {got}, definition gives {exp}")));
                            }
                        }
                    }
                }
            }
        }
    }
}

pub fn c06_large(tier: &str, rec: &Recorder, c: &mut Counters) {
    long_path_stage("C06", rec, c);
    for inp in inputs_counting(tier) {
        for weighted in if inp.weighted { vec![true, false] } else { vec![false] } {
            let d = dense_of(&inp.g, weighted);
            let n = d.n;
            for wf in [false, true] {
                c.inc("large_graph_calls");
                let case = format!("L:{}|cc:w={weighted}:wf={wf}", inp.name);
                let mk = |clause: &str, detail: String| Violation::new(clause, "closeness_centrality", case.clone(), format!("large graph {} (n={n}), weighted={weighted} wf_improved={wf}\n{detail}", inp.name)).with_tags(vec!["large_graph_parallel_path".into()]);
                match guarded(|| closeness::closeness_centrality(&inp.g, weighted, wf)) {
                    Err(pi) => rec.record(mk("no_panic", pi.msg.clone()).with_panic(pi)),
                    Ok(Err(e)) => rec.record(mk("unexpected_error", format!("Err({:?})", e.kind))),
                    Ok(Ok(m)) => {
                        if m.len() != n {
                            rec.record(mk("one_entry_per_node", format!("{} entries", m.len())));
                        }
                        for (k, got) in &m {
                            let u = *k as usize;
                            let r: Vec<f64> = (0..n).filter(|&v| v != u).filter_map(|v| d.dist[v][u]).collect();
                            let exp = if r.is_empty() {
                                0.0
                            } else {
                                let kk = r.len() as f64;
                                let mut x = kk / r.iter().sum::<f64>();
                                if wf {
                                    x *= kk / (n as f64 - 1.0);
                                }
                                x
                            };
                            if !close(*got, exp) {
                                rec.record(mk("value", format!("closeness[{k}] = {got}, definition gives {exp}")));
                            }
                        }
                    }
                }
            }
        }
    }
}

/// C09 on graphs above the parallel threshold (real rayon, the default pool): counts, degree maps and handshake sums
/// recomputed from get_all_edges(); inputs include hubs whose edges are spread over many work chunks
pub fn c09_large(tier: &str, rec: &Recorder, c: &mut Counters) {
    let mut ins = inputs(tier);
    for (n, directed) in [(61i32, true), (61, false), (200, true)] {
        // in-star, out-star and a double hub
        let mut g: Graph<i32, ()> = Graph::new(if directed { GraphSpecs::directed() } else { GraphSpecs::undirected() });
        for i in (0..n).rev() {
            g.add_node(Node::from_name(i));
        }
        for i in 2..n {
            let _ = g.add_edge(Arc::new(Edge { u: i, v: 0, weight: 1.0 + (i % 3) as f64, attributes: None }));
            if i % 2 == 0 {
                let _ = g.add_edge(Arc::new(Edge { u: 1, v: i, weight: 2.0, attributes: None }));
            }
        }
        ins.push(Input { name: format!("hubs{n}/{}", if directed { "directed" } else { "undirected" }), g, weighted: true });
    }
    for inp in ins {
        let g = &inp.g;
        let n = g.number_of_nodes();
        let directed = g.specs.directed;
        c.inc("large_graph_calls");
        let mk = |clause: &str, call: &str, detail: String| Violation::new(clause, call, format!("L:{}|{call}", inp.name), format!("large graph {} (n={n})\n{detail}", inp.name)).with_tags(vec!["large_graph_parallel_path".into()]);
        let (mut din, mut dout) = (vec![0usize; n], vec![0usize; n]);
        let (mut win, mut wout) = (vec![0.0f64; n], vec![0.0f64; n]);
        let edges = g.get_all_edges();
        for e in &edges {
            dout[e.u as usize] += 1;
            din[e.v as usize] += 1;
            wout[e.u as usize] += e.weight;
            win[e.v as usize] += e.weight;
        }
        if g.number_of_edges() != edges.len() {
            rec.record(mk("number_of_edges", "Graph::number_of_edges", format!("{} vs {} stored edges", g.number_of_edges(), edges.len())));
        }
        let r = guarded(|| (g.get_degree_for_all_nodes(), g.get_in_degree_for_all_nodes(), g.get_out_degree_for_all_nodes(), g.get_weighted_degree_for_all_nodes(), g.get_weighted_in_degree_for_all_nodes(), g.get_weighted_out_degree_for_all_nodes()));
        let (deg, indeg, outdeg, wdeg, windeg, woutdeg) = match r {
            Ok(x) => x,
            Err(pi) => {
                rec.record(mk("no_panic", "Graph::get_*_degree_for_all_nodes", pi.msg.clone()).with_panic(pi));
                continue;
            }
        };
        for v in 0..n {
            let name = v as i32;
            let total = din[v] + dout[v];
            if deg.get(&name) != Some(&total) {
                rec.record(mk("degree_map", "Graph::get_degree_for_all_nodes", format!("degree[{v}] = {:?}, edges give {total}", deg.get(&name))));
            }
            if g.get_node_degree(name) != Some(total) {
                rec.record(mk("degree", "Graph::get_node_degree", format!("degree({v}) = {:?}, edges give {total}", g.get_node_degree(name))));
            }
            if !inp.weighted {
                continue; // unweighted edges carry NaN: the weighted maps are not defined by the statement
            }
            let wt = win[v] + wout[v];
            if !wdeg.get(&name).map_or(false, |x| close(*x, wt)) {
                rec.record(mk("weighted_degree_map", "Graph::get_weighted_degree_for_all_nodes", format!("weighted degree[{v}] = {:?}, edges give {wt}", wdeg.get(&name))));
            }
            if directed {
                if indeg.as_ref().ok().and_then(|m| m.get(&name)) != Some(&din[v]) {
                    rec.record(mk("in_degree_map", "Graph::get_in_degree_for_all_nodes", format!("in-degree[{v}] = {:?}, edges give {}", indeg.as_ref().ok().and_then(|m| m.get(&name)), din[v])));
                }
                if outdeg.as_ref().ok().and_then(|m| m.get(&name)) != Some(&dout[v]) {
                    rec.record(mk("out_degree_map", "Graph::get_out_degree_for_all_nodes", format!("out-degree[{v}] = {:?}, edges give {}", outdeg.as_ref().ok().and_then(|m| m.get(&name)), dout[v])));
                }
                if !windeg.as_ref().ok().and_then(|m| m.get(&name)).map_or(false, |x| close(*x, win[v])) {
                    rec.record(mk("weighted_in_degree_map", "Graph::get_weighted_in_degree_for_all_nodes", format!("weighted in-degree[{v}] = {:?}, edges give {}", windeg.as_ref().ok().and_then(|m| m.get(&name)), win[v])));
                }
                if !woutdeg.as_ref().ok().and_then(|m| m.get(&name)).map_or(false, |x| close(*x, wout[v])) {
                    rec.record(mk("weighted_out_degree_map", "Graph::get_weighted_out_degree_for_all_nodes", format!("weighted out-degree[{v}] = {:?}, edges give {}", woutdeg.as_ref().ok().and_then(|m| m.get(&name)), wout[v])));
                }
            }
        }
        let hs: usize = deg.values().sum();
        if hs != 2 * edges.len() {
            rec.record(mk("handshake", "Graph::get_degree_for_all_nodes", format!("degrees sum to {hs}, twice the number of edges is {}", 2 * edges.len())));
        }
    }
}

pub fn c18_large(tier: &str, rec: &Recorder, c: &mut Counters) {
    for inp in inputs(tier) {
        for weighted in if inp.weighted { vec![true, false] } else { vec![false] } {
            let n = inp.g.number_of_nodes();
            let mut a = vec![vec![0.0f64; n]; n];
            for e in inp.g.get_all_edges() {
                let w = if !weighted || e.weight.is_nan() { 1.0 } else { e.weight };
                a[e.u as usize][e.v as usize] = w;
                if !inp.g.specs.directed {
                    a[e.v as usize][e.u as usize] = w;
                }
            }
            let fro: f64 = a.iter().flatten().map(|x| x * x).sum::<f64>().sqrt();
            for (max_iter, tol) in [(1000u32, 1e-6), (2000, 1e-10), (3, 1e-2)] {
                c.inc("large_graph_calls");
                let case = format!("L:{}|ev:w={weighted}:it={max_iter}:tol={tol:e}", inp.name);
                let mk = |clause: &str, detail: String| Violation::new(clause, "eigenvector_centrality", case.clone(), format!("large graph {} (n={n}), weighted={weighted} max_iter={max_iter} tolerance={tol:e}\n{detail}", inp.name)).with_tags(vec!["large_graph_parallel_path".into()]);
                match guarded(|| eigenvector::eigenvector_centrality(&inp.g, weighted, Some(max_iter), Some(tol))) {
                    Err(pi) => rec.record(mk("no_panic", pi.msg.clone()).with_panic(pi)),
                    Ok(Err(e)) => {
                        if format!("{:?}", e.kind) != "PowerIterationFailedConvergence" {
                            rec.record(mk("error_kind", format!("Err({:?})", e.kind)));
                        }
                    }
                    Ok(Ok(m)) => {
                        c.inc("large_graph_ok_results");
                        if m.len() != n {
                            rec.record(mk("one_entry_per_node", format!("{} entries", m.len())));
                            continue;
                        }
                        let x: Vec<f64> = (0..n).map(|i| m[&(i as i32)]).collect();
                        if x.iter().any(|v| !(*v >= 0.0)) {
                            rec.record(mk("non_negative", format!("{x:?}")));
                            continue;
                        }
                        let norm: f64 = x.iter().map(|v| v * v).sum::<f64>().sqrt();
                        if (norm - 1.0).abs() > 1e-9 {
                            rec.record(mk("unit_norm", format!("norm {norm}")));
                            continue;
                        }
                        let mut y = x.clone();
                        for i in 0..n {
                            for j in 0..n {
                                y[j] += x[i] * a[i][j];
                            }
                        }
                        let ny: f64 = y.iter().map(|v| v * v).sum::<f64>().sqrt();
                        let diff: f64 = x.iter().zip(&y).map(|(p, q)| (p - q / ny) * (p - q / ny)).sum::<f64>().sqrt();
                        let bound = 2.0 * (1.0 + fro) * n as f64 * tol * (1.0 + 1e-9) + 1e-12;
                        if diff > bound {
                            rec.record(mk("fixed_point", format!("one further step x -> normalise(x + A^T x) moves the result by {diff:e}, bound {bound:e}")));
                        }
                    }
                }
            }
        }
    }
}
