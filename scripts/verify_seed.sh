#!/bin/bash
# verify_seed.sh <seed-dir with patch.diff + demo.rs> : confirms, in a scratch worktree of /repo HEAD,
# that the patch applies, compiles (plain + hooks), keeps the baseline suite unchanged, and that the demo
# fails with the patch and passes without it.  Prints a summary; exit 0 iff everything confirmed.
set -u
SD="$1"; WT=/tmp/wt/verify_$$
export CARGO_NET_OFFLINE=true
git -C /repo worktree add --detach "$WT" HEAD -q || exit 2
trap 'git -C /repo worktree remove --force "$WT" >/dev/null 2>&1' EXIT
cd "$WT"
export CARGO_TARGET_DIR=${VERIFY_TARGET:-/tmp/wt/verify_target}
T=/tmp/wt/v_$$
ok=1
suite() { cargo test --workspace --no-fail-fast --offline -j 4 2>&1 | grep -E "^test .* \.\.\. " | sed 's/ (line [0-9]*)//' | sort; }
cp "$SD/demo.rs" tests/seed_demo.rs
echo "== demo WITHOUT patch"; if cargo test --offline --test seed_demo >${T}_demo0.log 2>&1; then echo "  passes (good)"; else echo "  FAILS without patch (bad)"; tail -15 ${T}_demo0.log; ok=0; fi
rm tests/seed_demo.rs
suite > ${T}_base.txt
if ! git apply "$SD/patch.diff" 2>${T}_apply.log; then echo "patch does not apply:"; cat ${T}_apply.log; exit 1; fi
echo "== build with hooks"; cargo build --offline --features verif_hooks,adjacency_matrix 2>&1 | grep -E "^error" -A5 && ok=0
suite > ${T}_patch.txt
echo "== baseline suite diff (empty = unchanged)"; if ! diff ${T}_base.txt ${T}_patch.txt; then ok=0; fi
echo "   tests: $(wc -l < ${T}_patch.txt), failing: $(grep -c FAILED ${T}_patch.txt)"
cp "$SD/demo.rs" tests/seed_demo.rs
echo "== demo WITH patch"; if cargo test --offline --test seed_demo >${T}_demo1.log 2>&1; then echo "  PASSES with patch (bad)"; ok=0; else echo "  fails (good)"; grep -E "^test .* FAILED|panicked" ${T}_demo1.log | head -5; fi
cd /; [ $ok = 1 ] && echo "SEED CONFIRMED" || echo "SEED NOT CONFIRMED"
[ $ok = 1 ]
