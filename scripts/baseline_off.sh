#!/bin/bash
# repository's own test suite with the verif_hooks feature OFF (results must match /root/.vp/BASELINE.json:
# 207 passing tests; the 3 weighted-clustering tests listed there as always_fail fail on this platform)
cd /repo && CARGO_NET_OFFLINE=true cargo test --workspace --no-fail-fast --offline
