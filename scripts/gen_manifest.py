#!/usr/bin/env python3
"""Generates /verif/MANIFEST.json from the table below (single source of truth)."""
import json, subprocess

E1 = "E1 history BFS"
CHECKS = {
    "C01": dict(
        engine=E1, category="model_checking", design_ref="DESIGN.md §5 C01, §3 E1, Appendix A",
        technique="explicit-state BFS over operation histories on the real Graph, state = canonical snapshot of all private indexes, every transition compared with a reference model",
        text="Every history over a small alphabet (3 names, 3 weights, 3 attributes, batches) up to the depth bound, from every reached state, for all 96 GraphSpecs, is executed on the real Graph; each call's result kind, node list, edge multiset and parallel-edge order are compared with an executable reference model of the statement, and a failing call must leave the full private snapshot unchanged. Exhaustive within the bound, which is where policy x orientation x re-add interactions live.",
        note="Trusted: the reference model in harness/src/model.rs (40 lines, the property's ladder), the feature-guarded snapshot accessor, 128-bit state hashing. Bounded: names {a,b,c}, weights {NaN,1,2}, depth as reported in the evidence."),
}

PENDING = {}

def main():
    props = [json.loads(l) for l in open("/verif/properties.jsonl")]
    ids = [p["id"] for p in props]
    hooks_commits = subprocess.run(
        ["git", "-C", "/repo", "log", "--format=%H %s", "--grep=^verif_hooks"], capture_output=True, text=True
    ).stdout.strip().splitlines()
    checks = []
    for pid in ids:
        if pid not in CHECKS:
            continue
        c = CHECKS[pid]
        checks.append({
            "property_id": pid,
            "quick_cmd": f"./check {pid} quick",
            "thorough_cmd": f"./check {pid} thorough",
            "evidence_file": f"/verif/evidence/{pid}.json",
            "replay_cmd_template": f"./check {pid} --replay {{path}}",
            "engine": c["engine"],
            "level_claimed": {"category": c["category"], "text": c["text"], "design_ref": c["design_ref"]},
            "level_note": c["note"],
            "technique": c["technique"],
        })
    na = [{"property_id": pid, "reason": PENDING.get(pid, "check not built yet in this commit (work in progress; see DESIGN.md §5 for the planned model-checking design)")}
          for pid in ids if pid not in CHECKS]
    m = {
        "version": 1,
        "setup_cmd": "./setup.sh",
        "hooks": {
            "guard": "cargo feature `verif_hooks` of graphrs",
            "enable": "harness crates depend on graphrs = { path = \"/repo\", features = [\"verif_hooks\", \"adjacency_matrix\"] }; cargo rebuilds /repo's working tree on every ./check",
            "baseline_off_cmd": "./scripts/baseline_off.sh",
            "source_commits": [l.split()[0] for l in hooks_commits][::-1],
            "add_only": True,
        },
        "engines": [
            {"name": E1, "path": "harness/src/e1.rs", "serves_properties": [p for p in ["C01", "C02", "C03", "C09", "C15"] if p in CHECKS],
             "kind_free_text": "explicit-state breadth-first search over mutation histories executed on the real Graph (state key: canonical snapshot of all private indexes via the feature-guarded accessor), reference model in harness/src/model.rs"},
        ],
        "checks": checks,
        "notes": "Driver: ./check <ID> quick|thorough [--replay path]; exit 0 held / 1 VIOLATION / 2 machinery failure. Known findings: /verif/known_findings.json. Replay files: /verif/replays/<ID>/.",
        "not_applicable": na,
    }
    json.dump(m, open("/verif/MANIFEST.json", "w"), indent=1)
    print("claimed:", [c["property_id"] for c in checks], "not claimed:", len(na))

if __name__ == "__main__":
    main()
