#!/usr/bin/env python3
"""Generates /verif/MANIFEST.json from the table below (single source of truth)."""
import json, subprocess

E1 = "E1 history BFS"
CHECKS = {
    "C01": dict(
        engine=E1, category="model_checking", design_ref="DESIGN.md §5 C01, §3 E1, Appendix A",
        technique="explicit-state BFS over operation histories on the real Graph, state = canonical snapshot of all private indexes, every transition compared with a reference model",
        text="Every history over a small alphabet (3 names, 3 weights, 3 attributes, batches) up to the depth bound, from every reached state, for all 96 GraphSpecs, is executed on the real Graph; each call's result kind, node list, edge multiset and parallel-edge order are compared with an executable reference model of the statement, and a failing call must leave the full private snapshot unchanged. Exhaustive within the bound, which is where policy x orientation x re-add interactions live.",
        note="Trusted: the reference model in harness/src/model.rs (40 lines, the property's ladder), the feature-guarded snapshot accessor, 128-bit state hashing. Bounded: names {a,b,c}, weights {NaN,1,2}, depth as reported in the evidence."),
    "C02": dict(
        engine=E1, category="model_checking", design_ref="DESIGN.md §5 C02, §3 E1",
        technique="explicit-state BFS over mutation histories; state invariant: every query x every argument compared with the graph's own base view, plus white-box coherence of the redundant private indexes",
        text="On every distinct state reachable within the history bound (all 96 GraphSpecs) every query of src/graph/query.rs is called with every ordered pair, every subset and every index over the name universe plus an absent name, and must equal the answer computed from get_all_nodes()/get_all_edges(); the twelve private indexes are compared with one another through the snapshot accessor. Exhaustive over states and arguments, so the two orderings (by name / by position) are told apart.",
        note="Trusted: base view = the graph's own get_all_nodes/get_all_edges (C01 ties that view to the reference model); snapshot accessor. Bounded names/weights/depth as reported."),
    "C03": dict(
        engine=E1, category="model_checking", design_ref="DESIGN.md §5 C03",
        technique="explicit-state BFS over mutation histories with uniform weight alphabets; state invariant on the traversal lists + Bellman-Ford oracle + rebuilt-graph differential",
        text="On every distinct state reached by histories over uniformly weighted ({1,2,3}) or unweighted edges (all 96 GraphSpecs): successors_vec/predecessors_vec neighbour sets and per-pair weights must equal the edge store's (bit for bit, minimum of parallel edges); weighted Dijkstra from every node must equal Bellman-Ford over get_all_edges(); and the history-built graph must agree with the graph rebuilt from its own lists on all_pairs, betweenness and closeness. The alphabet forces second-edge-smaller/larger histories under every duplicate policy at depth 2.",
        note="Trusted: Bellman-Ford oracle (15 lines), snapshot accessor. Weights are small integers so sums are exact."),
    "C09": dict(
        engine=E1, category="model_checking", design_ref="DESIGN.md §5 C09",
        technique="explicit-state BFS over mutation histories; state invariant: counts, degrees, handshake identities, density and adjacency-matrix entries recomputed from the edge multiset",
        text="On every distinct state reached within the bound (all 96 GraphSpecs, so directed self-loops, parallel edges and name-order != insertion-order all occur): number_of_nodes/edges, size, every degree variant and *_for_all_nodes map, the handshake identities, degree centrality, density and every entry of the sparse adjacency matrix are compared with values computed from get_all_nodes()/get_all_edges().",
        note="Trusted: base view; sprs CsMat::get. Density only for single-edge graphs with n>=2, degree_centrality for n>=2 (as the statement)."),
    "C15": dict(
        engine=E1, category="model_checking", design_ref="DESIGN.md §5 C15",
        technique="explicit-state BFS over mutation histories; derived-state oracle (definition from the base view, source snapshot unchanged, C02/C03 oracles and one further C01 model step on every result)",
        text="On every distinct state reached within the bound (all 96 GraphSpecs): get_subgraph for all 16 subsets (incl. an absent name), reverse (and twice), set_all_edge_weights for w in {1,5,NaN} and to_single_edges are compared with their definitions computed from the source's base view; the source's private snapshot must be unchanged; every result must satisfy the C02 and (on uniform graphs) C03 state oracles and, in the deep stages, one further operation of every kind on it must agree with the C01 reference model.",
        note="Trusted: base view, reference model, snapshot accessor. Attributes of a collapsed edge are not asserted."),
}

PENDING = {}

def main():
    props = [json.loads(l) for l in open("/verif/properties.jsonl")]
    ids = [p["id"] for p in props]
    hooks_commits = subprocess.run(
        ["git", "-C", "/repo", "log", "--format=%H %s", "--grep=^verif_hooks"], capture_output=True, text=True
    ).stdout.strip().splitlines()
    checks = []
    for pid in ids:
        if pid not in CHECKS:
            continue
        c = CHECKS[pid]
        checks.append({
            "property_id": pid,
            "quick_cmd": f"./check {pid} quick",
            "thorough_cmd": f"./check {pid} thorough",
            "evidence_file": f"/verif/evidence/{pid}.json",
            "replay_cmd_template": f"./check {pid} --replay {{path}}",
            "engine": c["engine"],
            "level_claimed": {"category": c["category"], "text": c["text"], "design_ref": c["design_ref"]},
            "level_note": c["note"],
            "technique": c["technique"],
        })
    na = [{"property_id": pid, "reason": PENDING.get(pid, "check not built yet in this commit (work in progress; see DESIGN.md §5 for the planned model-checking design)")}
          for pid in ids if pid not in CHECKS]
    m = {
        "version": 1,
        "setup_cmd": "./setup.sh",
        "hooks": {
            "guard": "cargo feature `verif_hooks` of graphrs",
            "enable": "harness crates depend on graphrs = { path = \"/repo\", features = [\"verif_hooks\", \"adjacency_matrix\"] }; cargo rebuilds /repo's working tree on every ./check",
            "baseline_off_cmd": "./scripts/baseline_off.sh",
            "source_commits": [l.split()[0] for l in hooks_commits][::-1],
            "add_only": True,
        },
        "engines": [
            {"name": E1, "path": "harness/src/e1.rs", "serves_properties": [p for p in ["C01", "C02", "C03", "C09", "C15"] if p in CHECKS],
             "kind_free_text": "explicit-state breadth-first search over mutation histories executed on the real Graph (state key: canonical snapshot of all private indexes via the feature-guarded accessor), reference model in harness/src/model.rs"},
        ],
        "checks": checks,
        "notes": "Driver: ./check <ID> quick|thorough [--replay path]; exit 0 held / 1 VIOLATION / 2 machinery failure. Known findings: /verif/known_findings.json. Replay files: /verif/replays/<ID>/.",
        "not_applicable": na,
    }
    json.dump(m, open("/verif/MANIFEST.json", "w"), indent=1)
    print("claimed:", [c["property_id"] for c in checks], "not claimed:", len(na))

if __name__ == "__main__":
    main()
