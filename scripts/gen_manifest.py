#!/usr/bin/env python3
"""Generates /verif/MANIFEST.json from the table below (single source of truth)."""
import json, subprocess

E1 = "E1 history BFS"
E2 = "E2 bounded graph-space enumeration"
CHECKS = {
    "C01": dict(
        engine=E1, category="model_checking", design_ref="DESIGN.md §5 C01, §3 E1, Appendix A",
        technique="explicit-state BFS over operation histories on the real Graph, state = canonical snapshot of all private indexes, every transition compared with a reference model",
        text="Every history over a small alphabet (3 names, 3 weights, 3 attributes, batches) up to the depth bound, from every reached state, for all 96 GraphSpecs, is executed on the real Graph; each call's result kind, node list, edge multiset and parallel-edge order are compared with an executable reference model of the statement, and a failing call must leave the full private snapshot unchanged. Exhaustive within the bound, which is where policy x orientation x re-add interactions live.",
        note="Trusted: the reference model in harness/src/model.rs (40 lines, the property's ladder), the feature-guarded snapshot accessor, 128-bit state hashing. Bounded: names {a,b,c}, weights {NaN,1,2}, depth as reported in the evidence."),
    "C02": dict(
        engine=E1, category="model_checking", design_ref="DESIGN.md §5 C02, §3 E1",
        technique="explicit-state BFS over mutation histories; state invariant: every query x every argument compared with the graph's own base view, plus white-box coherence of the redundant private indexes",
        text="On every distinct state reachable within the history bound (all 96 GraphSpecs) every query of src/graph/query.rs is called with every ordered pair, every subset and every index over the name universe plus an absent name, and must equal the answer computed from get_all_nodes()/get_all_edges(); the twelve private indexes are compared with one another through the snapshot accessor. Exhaustive over states and arguments, so the two orderings (by name / by position) are told apart.",
        note="Trusted: base view = the graph's own get_all_nodes/get_all_edges (C01 ties that view to the reference model); snapshot accessor. Bounded names/weights/depth as reported."),
    "C03": dict(
        engine=E1, category="model_checking", design_ref="DESIGN.md §5 C03",
        technique="explicit-state BFS over mutation histories with uniform weight alphabets; state invariant on the traversal lists + Bellman-Ford oracle + rebuilt-graph differential",
        text="On every distinct state reached by histories over uniformly weighted ({1,2,3}) or unweighted edges (all 96 GraphSpecs): successors_vec/predecessors_vec neighbour sets and per-pair weights must equal the edge store's (bit for bit, minimum of parallel edges); weighted Dijkstra from every node must equal Bellman-Ford over get_all_edges(); and the history-built graph must agree with the graph rebuilt from its own lists on all_pairs, betweenness and closeness. The alphabet forces second-edge-smaller/larger histories under every duplicate policy at depth 2.",
        note="Trusted: Bellman-Ford oracle (15 lines), snapshot accessor. Weights are small integers so sums are exact."),
    "C09": dict(
        engine=E1, category="model_checking", design_ref="DESIGN.md §5 C09",
        technique="explicit-state BFS over mutation histories; state invariant: counts, degrees, handshake identities, density and adjacency-matrix entries recomputed from the edge multiset",
        text="On every distinct state reached within the bound (all 96 GraphSpecs, so directed self-loops, parallel edges and name-order != insertion-order all occur): number_of_nodes/edges, size, every degree variant and *_for_all_nodes map, the handshake identities, degree centrality, density and every entry of the sparse adjacency matrix are compared with values computed from get_all_nodes()/get_all_edges().",
        note="Trusted: base view; sprs CsMat::get. Density only for single-edge graphs with n>=2, degree_centrality for n>=2 (as the statement)."),
    "C15": dict(
        engine=E1, category="model_checking", design_ref="DESIGN.md §5 C15",
        technique="explicit-state BFS over mutation histories; derived-state oracle (definition from the base view, source snapshot unchanged, C02/C03 oracles and one further C01 model step on every result)",
        text="On every distinct state reached within the bound (all 96 GraphSpecs): get_subgraph for all 16 subsets (incl. an absent name), reverse (and twice), set_all_edge_weights for w in {1,5,NaN} and to_single_edges are compared with their definitions computed from the source's base view; the source's private snapshot must be unchanged; every result must satisfy the C02 and (on uniform graphs) C03 state oracles and, in the deep stages, one further operation of every kind on it must agree with the C01 reference model.",
        note="Trusted: base view, reference model, snapshot accessor. Attributes of a collapsed edge are not asserted."),
    "C04": dict(
        engine=E2, category="model_checking", design_ref="DESIGN.md §5 C04, §3 E2",
        technique="exhaustive enumeration of every labelled graph up to a size bound x every source/option, against an all-simple-paths oracle",
        text="Every labelled graph of every kind up to the size bounds (weights {1,2}, {1,2,3}, {0,1,2}; parallel edges; self-loops; several insertion orders) is built on the real Graph; single_source for every source and first_only value, multi_source for every source subset (n<=4) and all_pairs are compared with an oracle that enumerates all simple paths: reported set = reachable set, exact distances, every path valid, path multiset = all shortest paths (positive weights), exactly one of them with first_only.",
        note="Trusted: DFS path enumeration oracle (oracle.rs). Bounded: n<=5/6 as listed in the evidence's families; integer weights (exact sums). The >20-node parallel path is C07's."),
    "C05": dict(
        engine=E2, category="model_checking", design_ref="DESIGN.md §5 C05",
        technique="exhaustive enumeration of every labelled graph up to a size bound x weighted x normalized, against exact-rational betweenness from enumerated shortest-path sets",
        text="On every graph of the enumerated families betweenness_centrality (weighted/unweighted, normalized/raw) is compared with the definition computed in exact rationals from the sets of all shortest simple paths: endpoints excluded, unreachable pairs contribute nothing, undirected raw values halved, division by (n-1)(n-2) for n>2, one entry per node.",
        note="Trusted: path-set oracle; tolerance 1e-9 relative. Bounded sizes as listed; positive weights {1,2},{1,2,3}."),
    "C06": dict(
        engine=E2, category="model_checking", design_ref="DESIGN.md §5 C06",
        technique="exhaustive enumeration of every labelled graph up to a size bound x weighted x wf_improved, against the closeness definition computed from a Floyd-Warshall distance matrix",
        text="On every graph of the enumerated families closeness_centrality is compared with (r-1)/sum of distances INTO the node over the nodes that reach it, times (r-1)/(n-1) under WF scaling, 0 when nothing reaches it; every asymmetric digraph in the families exercises the direction clause.",
        note="Trusted: Floyd-Warshall oracle; tolerance 1e-9 relative. Bounded sizes as listed; positive weights."),
    "C08": dict(
        engine=E2, category="model_checking", design_ref="DESIGN.md §5 C08",
        technique="exhaustive enumeration of graphs x all 16 option combinations x all targets x all cutoffs, metamorphic comparison with the unrestricted answer and between the three entry points",
        text="For every graph of the families and every source, the unrestricted answer is the base; every combination of first_only x with_paths x target in {None}+nodes x cutoff in {None, every distinct distance, midpoints, max+1} through single_source, all_pairs and multi_source must restrict the base without changing it (this pits the distance-only fast path against the full algorithm); symmetry on undirected graphs, the triangle inequality, and get_all_shortest_paths_involving(x) as a multiset are checked too.",
        note="Trusted: the unrestricted single_source answer as base (C04 ties it to the definition). Positive weights or hop counts; negative cutoffs outside the statement."),
    "C10": dict(
        engine=E2, category="model_checking", design_ref="DESIGN.md §5 C10",
        technique="exhaustive enumeration of every labelled graph up to a size bound against Warshall-closure classes, plus exhaustive enumeration of all successor-set visiting orders of the SCC routine through an order seam",
        text="Every digraph with n<=4/5 and undirected graph with n<=6/7 (loops and parallel edges at n<=3/4) x insertion orders: the three component functions, number/node component, bfs from every node, bfs_equal_size_partitions for k=1..n+1 and the kind guards are compared with reachability classes from a Warshall closure. For digraphs with n<=4 every combination of visiting orders of the successor sets inside strongly_connected_components is executed (the order dependence the tests cannot control).",
        note="Trusted: Warshall oracle; the H4 order seam (shadowing Vec in place of HashSet iteration). Sizes as listed."),
    "C11": dict(
        engine=E2, category="model_checking", design_ref="DESIGN.md §5 C11",
        technique="exhaustive enumeration of every labelled single-edge graph up to a size bound x every non-empty node subset, against definition-level oracles (matrix-cube forms of the Fagiolo / Onnela coefficients)",
        text="All single-edge graphs (undirected n<=5/6, directed n<=4, every self-loop placement at n<=4, weights {1,2,3}) x every non-empty subset of nodes and None: clustering (4 variants), average_clustering, triangles, transitivity, generalized_degree and square_clustering are compared with independent implementations of their definitions on the loop-free simple graph; subset answers must equal the full computation restricted to the subset; multi-edge graphs and (for the undirected-only functions) directed graphs must be refused with WrongMethod; coefficients must lie in [0,1].",
        note="Trusted: oracle formulas in c11.rs. Tolerance 1e-9. Weighted graphs whose strictly largest weight sits on a self-loop are skipped for the weighted coefficients (normalisation convention not fixed by the statement); 0/0 cases are not asserted."),
    "C12": dict(
        engine=E2, category="model_checking", design_ref="DESIGN.md §5 C12",
        technique="exhaustive enumeration of graphs x every multiset of node subsets (incl. a foreign name, the empty set, repeats), against the set-theoretic partition definition and Newman's formula in exact rationals",
        text="Every graph of every kind with n<=3 (n=4 thorough) x every multiset of at most 3-4 subsets of (nodes + one foreign name): is_partition must equal (pairwise disjoint, only graph nodes, covering); modularity must refuse every non-partition with NotAPartition and equal Newman's formula (parallel edges individually, loops once in L_c and twice in the degree, directed out x in) for every true partition x weighted x resolution in {0.5,1,2}. The enumeration contains the families where an overlap and an omission cancel in the member count.",
        note="Trusted: rational-arithmetic oracle. Weights {1,2}; graphs with >= 1 edge for modularity."),
    "C18": dict(
        engine=E2, category="model_checking", design_ref="DESIGN.md §5 C18",
        technique="exhaustive enumeration of single-edge graphs x max_iter x tolerance; result checked as unit-norm non-negative approximate fixed point of the documented iteration with a derived bound",
        text="All single-edge graphs (directed n<=4 with loop placements at n<=3, undirected n<=5; unweighted and weights {0,1,2}) x max_iter in {1,2,5,100,1000} x tolerance in {1e-2,1e-6,1e-12}: an Ok result must have one entry per node, non-negative entries, Euclidean norm 1 (1e-9), and one further step x -> normalise(x + A^T x) may move it by at most 2(1+||A||_F) n tol (derived, not tuned); an Err must be PowerIterationFailedConvergence.",
        note="Trusted: the bound derivation (DESIGN §5 C18). Which inputs converge is not asserted."),
    "C13": dict(
        engine=E2+" x E3", category="model_checking", design_ref="DESIGN.md §5 C13",
        technique="exhaustive enumeration of small input graphs x deviation-bounded exploration of hash-order choice points; liveness by lasso / horizon detection on the observed sweep-state sequence; safety oracle on every returned level list",
        text="Every graph with >= 1 edge of the families (all kinds n<=3, undirected n<=4/5, directed n<=4; unweighted and weights {1,2}) x weighted x resolution in {0.5,1,2} x threshold in {0,1e-7,0.1} x seeds; for each input the iteration order of the candidate-community map is a choice point explored to the reported deviation bound. A feature-guarded observer exposes the local-moving state at the top of every sweep, so non-termination is found as a repeated state (lasso) or a horizon overrun instead of a timeout, and is reported only if no explored order terminates and the free-running code does not either. Every returned result must be a non-empty list of partitions, each a coarsening of the previous, with non-decreasing modularity (own Newman implementation) on single-edge graphs, and louvain_communities must equal the last level.",
        note="Trusted: order seam + observer hooks (H2/H3), Newman oracle (C12's). Integer weights, so unseamed hash orders (aggregation edge order, degree sums) cannot change a result."),
    "C16": dict(
        engine="E6 skipping-walk chain explorer", category="model_checking", design_ref="DESIGN.md §5 C16",
        technique="explicit-state exploration of the generator's cursor chain under an injected random source, every model transition replayed against the real generator; exact expectation by dynamic programming on the validated chain",
        text="The random source is the environment: an injected RngCore dictates every geometric skip. For both kinds and every n up to the bound, every cursor state x every second skip (plus the largest skip a draw can produce, and all three-skip traces for small n) at five edge probabilities is run on the real generator and its whole emitted pair set compared with a linear-cell model of the published skipping scheme; on the validated chain the expected edge count is computed exactly (no sampling noise) and every possible pair must be emitted by some trace; extreme p (1e-300..1-1e-16) with dictated draws, argument validation, complete_graph for n=0..40,100,300 and the karate club against an embedded Zachary list.",
        note="Trusted: rand 0.8's u64->f64 mapping (Standard), the 40-line cell model, the embedded Zachary list (from networkx). Seeded ChaCha runs are supplementary sampling (structure only)."),
    "C17": dict(
        engine=E2+" x E3", category="model_checking", design_ref="DESIGN.md §5 C17",
        technique="deviation-bounded exhaustive exploration of every hash-map iteration order that carries a seam in Louvain, on tie-rich graphs; oracle: the set of results over all explored orders is a singleton",
        text="louvain_partitions with a seed on graphs chosen to contain exact gain ties (paths, cycles, K4, K3,3, the cube, joined triangles, all small graphs; integer weights; thorough: inexact weights with the weight-sum order as an extra choice point): every permutation at every candidate-community iteration, to the reported deviation bound, must give one and the same list of partitions. Supplementary (sampled, labelled): the same calls, fast_gnp with a seed, and every non-randomised algorithm on real hash orders under several harness-chosen hash-key environments (interposed getrandom) and rayon pool sizes.",
        note="Trusted: order seam hooks, getrandom interposition (self-tested at start-up). Hash sites without a seam only reorder float additions; exact with integer weights."),
    "C20": dict(
        engine=E2+" x API table", category="model_checking", design_ref="DESIGN.md §5 C20, Appendix D",
        technique="exhaustive product of an API table of every externally reachable pub fn x 8 graph kinds x every small graph x every argument tuple, executed with overflow checks on; oracle: no panic / overflow / hang, absent name => Err/None",
        text="A table of all 101 externally reachable functions (cross-checked at run time against `pub fn` in /repo/src, so a new API cannot escape) is called on every labelled graph with n<=2 (unweighted, weights {1,2}) and n=3 (unweighted) of all 8 kinds plus named degenerate n=4-5 shapes, with every argument tuple over the graph's names, all booleans, k=1..n+1, all subsets, option menus, and one absent name for functions with an error channel; built with overflow-checks and debug-assertions, Louvain sweeps observed so a hang is a finding not a timeout.",
        note="Trusted: catch_unwind + panic hook capturing file:line; the sweep observer. Functions without an error channel get present names only, as the statement says."),
    "C07": dict(
        engine="E4 rayon-contract schedule explorer", category="model_checking", design_ref="DESIGN.md §5 C07, §3 E4",
        technique="stateless exploration of schedules of the real parallel drivers under a contract model of rayon patched in for the whole dependency graph: deviation-bounded at the production threshold, exhaustive (all N! orders, all splits) with the parallel path forced on small graphs; conformance of the model against real rayon pools",
        text="graphrs is rebuilt with rayon replaced (cargo [patch]) by a contract model whose scheduler the explorer owns: execution order of the work items, reduction split trees, fold/map_init segmentations, join order and current_num_threads(). Stage A: graphs with 21-24 nodes x the five functions: every schedule with at most d deviations from in-order execution. Stage B: with the parallel path forced by a hook on every small graph of the families: ALL schedules. Every schedule's result must be bit-identical (to_bits digests of all distances, path lists and centralities) to the single-threaded result. Stage C/D validates the model against real rayon: the same calls inside caller-installed pools of 1..16 threads and the global pool, and concurrent read-only calls from several threads, must reproduce the single-threaded digests.",
        note="Trusted: shims/rayon implements rayon's documented contract (each item once, arbitrary order, indexed collect in index order, arbitrary reduction tree / segmentation). Items run to completion one at a time: sound while work items cannot communicate (token audit of /repo/src + compile-time Sync assertion, reported in the evidence); races inside concurrently running items are only sampled by the real-rayon stage."),
    "C14": dict(
        engine="E5-style product enumerator", category="model_checking", design_ref="DESIGN.md §5 C14",
        technique="exhaustive product enumeration of names x shapes x weights x specs through write-then-read, plus every f64 exponent x boundary mantissas; oracle: structural and to_bits equality",
        text="Names from a 21-string menu (empty, spaces, XML specials, entity look-alikes, CDATA/comment terminators, non-ASCII, astral) as singles, ordered pairs and ordered triples x every edge shape with <= 3 edges incl. self-loops and parallel edges x directed/undirected x weight patterns from a 14-value menu (signed zero, subnormals, f64::MAX, +-inf, unweighted) x spec variants; plus a single edge carrying every bit pattern of {all 2047 exponents} x {6 boundary mantissas} x {+,-}. read(write(g), g.specs) must have the same names in the same order, the same directedness and the same edge multiset with bit-identical weights; file and string variants must give the same document.",
        note="Not all 2^64 weights (all exponents, boundary mantissas); control characters excluded as in the statement."),
    "C19": dict(
        engine="E5 document fault enumerator", category="fault_enumeration", design_ref="DESIGN.md §5 C19",
        technique="exhaustive single-point (every byte position x 13 fault kinds) and pairwise fault enumeration of base documents plus grammar-generated near-GraphML documents; oracle: no panic/overflow/hang, and Ok(g) must equal the reference interpretation of the document",
        text="Four base documents (two written by the library, one hand-written with every construct the reader looks at, one minimal) x EVERY byte position x {delete, duplicate, truncate, overwrite with 10 structural characters}; every PAIR of such faults on the minimal base; a grammar of key / graph / node / edge / data variants (attributes present, absent, duplicated, with entities; text menus incl. non-numeric weights); stressors. Each document is read under 2-4 spec combinations inside catch_unwind with a watchdog. If the reader returns a graph and the harness's own tokenisation of the document finds exactly one start-form graph, the graph's directedness, nodes, edges (and comparable weights) must equal the C01 reference model applied to the document's elements.",
        note="Trusted: quick-xml (used directly for the harness's own tokenisation), the C01 reference model. Faulted documents that stop being UTF-8 cannot be passed as &str and are counted and skipped."),
}

PENDING = {}

# engine-level additions (DESIGN.md §12 rounds 3-4), appended to the level text of every check that uses them
E2_EXTRA = (" Small families are additionally run (a) after each of 12 primer calls made on the same thread (two-call histories across graphs: "
            "thread-local and pooled state), (b) built through 7 construction routes (edges first under Create then nodes re-added, reverse().reverse() / "
            "get_subgraph(all), new_from_nodes_and_edges, shared Arc objects, KeepLast/KeepFirst+Create+Drop specs), (c) as query -> mutate in place -> query "
            "histories with 9 mutations (one of them a rejected call) on the same Graph object, and where the oracle is scale-free (d) with exact power-of-two weights around 2^-60 and 2^60; path-based checks also use node-keyed weight schemes (weight = function of the source / target node) on all 4-node digraphs.")
E1_EXTRA = " One further stage repeats the exploration with equal edge specifications being one shared Arc<Edge> object (alphabet suffix @alias); batch calls are applied from every shallow state and the object each batch call leaves behind (also after a failing element) gets the state oracle."
for pid in ["C04", "C05", "C06", "C08", "C10", "C11", "C12", "C13", "C18", "C20"]:
    CHECKS[pid]["text"] += E2_EXTRA
ROUND9 = {
    "C01": " The quick tier also runs the @alias stage (one Arc<Edge> per distinct edge value, re-added by clone).",
    "C02": " Wide-graph stage: the query names a, b, c (loops, a mutual pair, parallel edges) inside graphs with 300 further nodes, 8 graphs, same oracle.",
    "C05": " Long-path stage: paths with 2100 nodes, both kinds, closed-form values (beyond every block size of the parallel branch).",
    "C06": " Long-path stage: paths with 6000 nodes, both kinds, closed-form values at relative tolerance 1e-9 (distance sums beyond 2^24).",
    "C08": " Family wf71 = weights {0.7, 0.1} on 3-node digraphs with at most 3 edges: cutoffs equal to inexact reported distances.",
    "C09": " E1 stage winf2 = weights {1, +inf} at depth 3: aggregates must be +inf, never NaN.",
    "C10": " History families include a rejected add_edge (unknown endpoint) as a mutation; a component member that is not a node is reported under clause partition.",
    "C11": " Families wspan = weights {1e-20, 1} (coefficients below f64::EPSILON).",
    "C15": " Tall-group stage: every parallel-group size 1..24 on a pair and on a self-loop, both kinds, integer weights.",
    "C16": " Zero-skip traces (every dictated draw gives skip 0, every pair is due) at n = 100, 140, 203, both kinds.",
    "C20": " The call table includes cutoffs +inf, f64::MAX and 1.9e19 in both modes.",
}
for pid, t in ROUND9.items():
    if pid in CHECKS:
        CHECKS[pid]["text"] += t
for pid in ["C01", "C02", "C03", "C09", "C15"]:
    CHECKS[pid]["text"] += E1_EXTRA
CHECKS["C13"]["text"] += " Medium inputs (6-12 nodes) include nearly equal weights 1, 1+eps, 1+2eps; large inputs have 130-2200 edges."
CHECKS["C17"]["text"] += " Also: the input re-derived by get_subgraph / reverse().reverse() inside every hash-key environment, and medium graphs with nearly equal weights (around 1 and, scaled by 2^53, whole numbers whose sums round) free-running under several hash-key environments."
CHECKS["C20"]["text"] += " The table is also run on reverse(), to_single_edges(), get_subgraph(all) and set_all_edge_weights(2) of every small graph, and as two-call histories (one call on graph A, then the whole table on a smaller graph B on the same thread)."
CHECKS["C19"]["text"] += " Plus attribute injection (every start tag x 26 attribute names x 14 extreme values) and text replacement (every attribute value and text node x a menu of long / non-ASCII / multi-byte strings)."
CHECKS["C03"]["text"] += " Every transition is preceded by queries that end with early-stopping searches (cutoff, target, first_only); the first node's Dijkstra is judged immediately after the mutation."
CHECKS["C04"]["text"] += " Every single_source call is also made in its distance-only form (no paths) and must report the same nodes and distances."
CHECKS["C02"]["text"] += " Name lists with repeats (longer than the node list) must be answered like the set."
CHECKS["C09"]["text"] += " A large-graph stage repeats counts, degree maps and handshake sums on 21-200-node graphs (hubs) under real rayon."
CHECKS["C10"]["text"] += " Paths and cycles with 150 000 (thorough 600 000) nodes run in a child process on a 2 MiB-stack thread (recursion depth)."
CHECKS["C11"]["text"] += " Name lists with repeats are compared with the set's answers."
CHECKS["C14"]["text"] += " Large documents (1200 multi-byte names, 4 byte alignments) go through the string and the file variants."
CHECKS["C14"]["text"] += " Cases with equal parallel edges are run a second time with those edges being one shared Arc object."
CHECKS["C01"]["text"] += " Batch calls of length 2..1025 (2049 thorough) around powers of two with the failing element first / in the middle / last are compared with the reference model."

def main():
    props = [json.loads(l) for l in open("/verif/properties.jsonl")]
    ids = [p["id"] for p in props]
    hooks_commits = subprocess.run(
        ["git", "-C", "/repo", "log", "--format=%H %s", "--grep=^verif_hooks"], capture_output=True, text=True
    ).stdout.strip().splitlines()
    checks = []
    for pid in ids:
        if pid not in CHECKS:
            continue
        c = CHECKS[pid]
        checks.append({
            "property_id": pid,
            "quick_cmd": f"./check {pid} quick",
            "thorough_cmd": f"./check {pid} thorough",
            "evidence_file": f"/verif/evidence/{pid}.json",
            "replay_cmd_template": f"./check {pid} --replay {{path}}",
            "engine": c["engine"],
            "level_claimed": {"category": c["category"], "text": c["text"], "design_ref": c["design_ref"]},
            "level_note": c["note"],
            "technique": c["technique"],
        })
    na = [{"property_id": pid, "reason": PENDING.get(pid, "check not built yet in this commit (work in progress; see DESIGN.md §5 for the planned model-checking design)")}
          for pid in ids if pid not in CHECKS]
    m = {
        "version": 1,
        "setup_cmd": "./setup.sh",
        "hooks": {
            "guard": "cargo feature `verif_hooks` of graphrs",
            "enable": "harness crates depend on graphrs = { path = \"/repo\", features = [\"verif_hooks\", \"adjacency_matrix\"] }; cargo rebuilds /repo's working tree on every ./check",
            "baseline_off_cmd": "./scripts/baseline_off.sh",
            "source_commits": [l.split()[0] for l in hooks_commits][::-1],
            "add_only": True,
        },
        "engines": [
            {"name": E1, "path": "harness/src/e1.rs", "serves_properties": [p for p in ["C01", "C02", "C03", "C09", "C15"] if p in CHECKS],
             "kind_free_text": "explicit-state breadth-first search over mutation histories executed on the real Graph (state key: canonical snapshot of all private indexes via the feature-guarded accessor), reference model in harness/src/model.rs"},
            {"name": E2, "path": "harness/src/e2.rs", "serves_properties": [p for p in ["C04", "C05", "C06", "C08", "C10", "C11", "C12", "C13", "C17", "C18", "C20"] if p in CHECKS],
             "kind_free_text": "generates every labelled graph of a family (kind x n x every slot assignment over a small weight alphabet x insertion-order variants) on the real Graph and calls the function under test with every argument combination; brute-force oracles in harness/src/oracle.rs; E3 (harness/src/e3.rs) adds exhaustive / deviation-bounded exploration of hash-order choice points through the verif_hooks order seam"},
            {"name": "E4 rayon-contract schedule explorer", "path": "harness-par/src/main.rs + shims/rayon", "serves_properties": ["C07"] if "C07" in CHECKS else [],
             "kind_free_text": "second workspace in which cargo [patch.crates-io] replaces rayon by a contract model; a DFS over scheduler choice sequences with iterative deviation bounding runs the unmodified graphrs drivers under every schedule"},
            {"name": "E5 document fault enumerator", "path": "harness/src/c19.rs, c14.rs", "serves_properties": [p for p in ["C14", "C19"] if p in CHECKS],
             "kind_free_text": "every single-point fault (and pairs) of base GraphML documents, grammar-generated documents, and the write/read product enumeration"},
            {"name": "E6 skipping-walk chain explorer", "path": "harness/src/c16.rs", "serves_properties": ["C16"] if "C16" in CHECKS else [],
             "kind_free_text": "explicit-state exploration of the G(n,p) generator's cursor chain under an injected RngCore with full transition conformance"},
        ],
        "checks": checks,
        "notes": "Driver: ./check <ID> quick|thorough [--replay path]; exit 0 held / 1 VIOLATION / 2 machinery failure. Known findings: /verif/known_findings.json. Replay files: /verif/replays/<ID>/.",
        "not_applicable": na,
    }
    json.dump(m, open("/verif/MANIFEST.json", "w"), indent=1)
    print("claimed:", [c["property_id"] for c in checks], "not claimed:", len(na))

if __name__ == "__main__":
    main()
