#!/bin/bash
# replay_sanity.sh <seed-name> : with the seed applied, the check must report a violation whose replay file
# reproduces it (exit 1); on the unchanged tree the same replay must be silent (exit 0).
S="$1"; ID="${S%%-*}"; P=/verif/seeded/$S/patch.diff
exec 8>/verif/work/repo.lock; flock -x 8
cd /repo || exit 2
if [ -n "$(git status --porcelain --untracked-files=no)" ]; then echo "/repo not clean"; exit 2; fi
git apply "$P" || { echo "patch does not apply"; exit 2; }
cd /verif
GV_EVIDENCE_DIR=/tmp/ev_seed GV_HAVE_REPO_LOCK=1 ./check "$ID" quick > /verif/work/rs_$S.log 2>&1; rc1=$?
R=$(grep -m1 "^VIOLATION" /verif/work/rs_$S.log | sed 's/.*replay=//')
rc2=na
if [ -n "$R" ]; then GV_EVIDENCE_DIR=/tmp/ev_seed GV_HAVE_REPO_LOCK=1 ./check "$ID" --replay "$R" > /verif/work/rs_${S}_replay1.log 2>&1; rc2=$?; fi
git -C /repo checkout -- .
rc3=na
if [ -n "$R" ]; then GV_EVIDENCE_DIR=/tmp/ev_seed GV_HAVE_REPO_LOCK=1 ./check "$ID" --replay "$R" > /verif/work/rs_${S}_replay0.log 2>&1; rc3=$?; fi
flock -u 8
echo "$S check=$rc1 replay_with_seed=$rc2 replay_clean=$rc3 file=$R"
