#!/bin/bash
# exploratory: every thorough tier in sequence, evidence redirected (not the registered commands' evidence)
export GV_EVIDENCE_DIR=${GV_EVIDENCE_DIR:-/tmp/ev_thorough}
for id in "$@"; do
  /verif/check $id thorough 2>&1 | grep -E "^VIOLATION|^KNOWN|MACHINERY|^  clause|exit=" | cut -c1-600
done
