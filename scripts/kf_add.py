#!/usr/bin/env python3
"""kf_add.py fixed <prop> <commit> <clause> <call> <what>   |   kf_add.py open <prop> <clause> <call> <predicate> <example> <what> [site]"""
import json,sys
p='/verif/known_findings.json'
d=json.load(open(p))
if sys.argv[1]=='fixed':
    _,_,prop,commit,clause,call,what=sys.argv[:7]
    d.append({"property":prop,"status":"fixed","commit":commit,"clause":clause,"call":call,"what":what,
              "line":f"fixed: property={prop} {commit} {what}"})
else:
    _,_,prop,clause,call,pred,example,what=sys.argv[:8]
    e={"property":prop,"status":"open","clause":clause,"call":call,"predicate":pred,"example":example,"what":what}
    if len(sys.argv)>8: e["site"]=sys.argv[8]
    d.append(e)
json.dump(d,open(p,'w'),indent=1)
