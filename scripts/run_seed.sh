#!/bin/bash
# run_seed.sh <patch.diff> <ID> [tier] : applies the patch to /repo, runs ./check, reverts.  Prints rc.
P="$1"; ID="$2"; TIER="${3:-quick}"
cd /repo || exit 2
if [ -n "$(git status --porcelain --untracked-files=no)" ]; then echo "/repo not clean"; exit 2; fi
git apply "$P" || { echo "patch does not apply"; exit 2; }
cd /verif && ./check "$ID" "$TIER" > /verif/work/seedrun_$ID.log 2>&1; rc=$?
git -C /repo checkout -- .
grep -E "^VIOLATION|^KNOWN|MACHINERY|^  clause|exit=" /verif/work/seedrun_$ID.log | head -12
echo "rc=$rc"
